"""C01 - only datagrams authenticated under the session key can affect a connection."""
import random
import struct

from checks.common import UdpCheck, gen_traffic, limits, Monitor, PoolGuard
from world.attacker import Attacker
from world.udpworld import ATTACKER_MARK, SERVER_ADDR, client_addr, ConnectionStatus, PacketType
from world import refmodel as R
from simkit.net import TaggedBytes


def snapshot(conn):
    bf, bm = conn.bitfield_pkt, conn.bitfield_msg
    return (conn.session_key_bytes, getattr(conn, "token", None), conn.status.value, conn.last_recv_time,
            int(bf.current_seqnum), bf.bits, int(bm.current_seqnum), bm.bits,
            tuple(conn.pending_acks), tuple(conn.pending_callbacks), tuple(conn.pending_retry),
            tuple(conn.pending_retry_msg), len(conn.incoming_messages), len(conn.outgoing_messages),
            tuple(sorted((k, sum(1 for f in v.fragments if f is not None)) for k, v in conn.received_fragments.items())),
            conn.stats.acked, conn.stats.timeouts, conn.stats.received, int(conn.seq_sending), int(conn.seq_message),
            conn.latency)


SNAP_NAMES = ("key", "token", "status", "last_recv_time", "pkt_newest", "pkt_bits", "msg_newest", "msg_bits",
              "pending_acks", "pending_callbacks", "pending_retry", "pending_retry_msg", "incoming", "outgoing",
              "received_fragments", "acked", "timeouts", "received", "seq_sending", "seq_message", "latency")


class AuthMonitor(Monitor):
    wants_recv = True

    def attach(self, world):
        self.w = world
        self.n_checked = 0
        self.n_prekey = 0
        self.prev_temp = {}
        self.accepted_wids = {}      # conn name -> set of wire ids accepted (for replay classification)
        self.first_key = {}
        self.key_flagged = set()

    def _key_is_kept(self, conn):
        """'... changing the key': a connection that holds a session key keeps exactly that key for the rest of its life."""
        kid = id(conn)
        k = conn.session_key_bytes
        k0 = self.first_key.get(kid)
        if k0 is None:
            if k:
                self.first_key[kid] = (bytes(k), conn)       # (the object is kept so that its id is not reused)
        elif (not k or bytes(k) != k0[0]) and kid not in self.key_flagged:
            self.key_flagged.add(kid)
            self.w.violation("connection_did_not_keep_its_session_key",
                             {"side": "server" if conn.isServer else "client", "now": "none" if not k else "another key",
                              "status": conn.status.name(), "t": round(self.w.k.now, 4)},
                             key="%s:%s" % ("server" if conn.isServer else "client", "none" if not k else "changed"))

    def on_tick(self):
        for conn in list(self.w.client_conns) + list(self.w.all_server_conns):
            self._key_is_kept(conn)

    def at_end(self):
        self.on_tick()

    def pre_recv(self, conn, hdr, datagram):
        self._key_is_kept(conn)
        origin = getattr(datagram, "origin", "net")
        meta = getattr(datagram, "meta", None) or {}
        if origin == "net":
            return None
        if meta.get("gen") == "replay":
            return None      # genuine bytes: authenticity is not in question (C04 judges replays)
        key = conn.session_key_bytes
        if key and len(datagram) >= R.HDR + R.TAG:
            # "not produced with that key" is decided by the reference opener, not assumed: a chain of the attacker's own
            # redirections (c0's hello re-sent from c1's address, the server's answer handed to c0) can make another
            # client's ciphertext genuinely authentic for this connection - then the statement does not speak about it
            h = R.dec_header(bytes(datagram[:R.HDR]))
            if len(datagram) == R.HDR + h["length"] + R.TAG and R.open_gcm(key, bytes(datagram)) is not None:
                self.w.probe("injected_datagram_is_authentic_under_the_target_key")
                return None
        return (snapshot(conn), conn.stats.dropped, bool(conn.session_key_bytes), origin, meta)

    def post_recv(self, conn, hdr, datagram, pre, result):
        self._key_is_kept(conn)
        if pre is None:
            return
        w = self.w
        snap0, dropped0, had_key, origin, meta = pre
        gen = meta.get("gen", origin)
        side = "server" if conn.isServer else "client"
        snap1 = snapshot(conn)
        self.n_checked += 1
        if had_key:
            if result is not False or snap1 != snap0 or conn.stats.dropped != dropped0 + 1:
                changed = [n for n, a, b in zip(SNAP_NAMES, snap0, snap1) if a != b]
                w.violation("unauthenticated_datagram_affected_keyed_connection",
                            {"side": side, "gen": gen, "meta": {k: v for k, v in meta.items() if k != "gen"},
                             "result": result, "changed": changed, "dropped_delta": conn.stats.dropped - dropped0,
                             "hdr_type": hdr.pkt_type.value, "count": hdr.count, "len": len(datagram)},
                            key="%s:%s:type=%s" % (side, gen, self._tclass(hdr, meta)))
        else:
            self.n_prekey += 1
            expected = PacketType.CLIENT_HELLO.value if conn.isServer else PacketType.SERVER_HELLO.value
            if result is not False or snap1 != snap0:
                # the statement allows exactly this: one hello message of the right kind (whatever the status of the
                # key-less endpoint is), and never an application message delivered from it
                ok = hdr.pkt_type.value == expected and hdr.count == 1 and snap1[12] == snap0[12]
                if not ok:
                    changed = [n for n, a, b in zip(SNAP_NAMES, snap0, snap1) if a != b]
                    w.violation("clear_datagram_other_than_single_hello_processed_before_key",
                                {"side": side, "gen": gen, "hdr_type": hdr.pkt_type.value, "count": hdr.count,
                                 "changed": changed, "status": snap0[2], "meta": {k: v for k, v in meta.items() if k != "gen"}},
                                key="%s:type=%s:count=%s" % (side, hdr.pkt_type.value, min(hdr.count, 3)))

    @staticmethod
    def _tclass(hdr, meta):
        t = hdr.pkt_type.value
        return "hello" if t in (1, 2) else "other"


class Grid:
    """The attacker's datagram generators (complete small grids, sampled large ones)."""

    def __init__(self, rng):
        self.rng = rng

    def forge_plain(self, to_client, my_seq, their_seq):
        out = []
        seq = R.ring_add(my_seq, 1)
        body = ATTACKER_MARK + b"forged"
        inner_sets = {0: [[]], 1: None, 2: [[6, 6], [4, 6], [1, 6], [2, 6], [5, 6], [7, 6], [3, 6], [6, 0]],
                      3: [[6, 6, 6], [1, 6, 5], [2, 7, 6]], 255: [[6] * 255]}
        for typ in range(8):
            for count, sets in inner_sets.items():
                for inner in (sets if sets is not None else [[typ]]):
                    msgs = []
                    for j, t in enumerate(inner):
                        b = body + bytes([j & 0xFF])
                        if t == R.T_APP_FRAGMENT:
                            b = struct.pack(">HHH", 7, 1, 1) + b
                        msgs.append((R.ring_add(30000, j + self.rng.randrange(1000)), t, b if count != 255 else b[:7]))
                    out.append((R.forge_plain(to_client, typ, seq, their_seq, 0xFFFFFFFF, msgs,
                                              ctime=1_700_000_000 + self.rng.randrange(10 ** 6)),
                                {"gen": "forge-plain", "type": typ, "count": count, "inner": inner[:3]}))
                    seq = R.ring_add(seq, 1)
        # out-of-range type bytes and inner type bytes
        for typ in (8, 9, 0x7F, 0xFF):
            h = R.enc_header(to_client, 1_700_000_000, seq, their_seq, typ, 2 + len(body), 1, 0xFFFFFFFF)
            out.append((R.seal_crc(h, struct.pack(">H", 31000) + body), {"gen": "forge-plain", "type": typ, "count": 1}))
            seq = R.ring_add(seq, 1)
        return out

    def mutate(self, genuine):
        out = []
        n = len(genuine)
        rng = self.rng
        bits = list(range(160)) + [8 * (n - 16) + i for i in range(128) if n >= 36]
        if n > 36:
            bits += [160 + rng.randrange(8 * (n - 36)) for _ in range(24)]
        for b in bits:
            m = bytearray(genuine)
            m[b // 8] ^= 1 << (b % 8)
            out.append((bytes(m), {"gen": "mutate-flip", "bit": b}))
        cuts = set(range(0, min(n, 40))) | {n - 1, n - 2, n - 4, n - 15, n - 16, n - 17} | {rng.randrange(n) for _ in range(12)}
        for c in sorted(x for x in cuts if 0 <= x < n):
            out.append((genuine[:c], {"gen": "mutate-trunc", "n": c}))
        for e in (1, 2, 4, 16, 64):
            out.append((genuine + bytes(rng.randrange(256) for _ in range(e)), {"gen": "mutate-extend", "n": e}))
            out.append((genuine + bytes(e), {"gen": "mutate-extend", "n": e}))
        # header rewrites, with and without CRC repair
        h = R.dec_header(genuine)
        body_ct = genuine[R.HDR:]
        for typ in range(8):
            for fixcrc in (False, True):
                hb = bytearray(genuine[:R.HDR])
                hb[12] = typ
                if fixcrc:
                    # present the ciphertext as a CRC-protected plaintext body of every plausible length
                    for ln in {len(body_ct), max(0, len(body_ct) - R.CRC), h["length"]}:
                        hh = R.enc_header(h["to_client"], h["ctime"], h["seq"], h["ack"], typ, ln, h["count"], h["ack_bits"])
                        out.append((R.seal_crc(hh, body_ct[:ln]), {"gen": "rewrite-crc", "type": typ, "len": ln}))
                else:
                    out.append((bytes(hb) + body_ct, {"gen": "rewrite", "type": typ}))
        for field, vals in (("length", (0, 1, h["length"] - 1, h["length"] + 1, 65535)), ("count", (0, 1, 2, 255)),
                            ("seq", (R.ring_add(h["seq"], 1), R.ring_add(h["seq"], 1000), 0)),
                            ("ack", (0, R.ring_add(h["ack"], 5))), ("ack_bits", (0, 0xFFFFFFFF)),
                            ("ctime", (0, h["ctime"] + 1))):
            for v in vals:
                hh = dict(h)
                hh[field] = v & 0xFFFFFFFF if field in ("ack_bits", "ctime") else v & 0xFFFF if field != "count" else v & 0xFF
                hb = R.enc_header(hh["to_client"], hh["ctime"], hh["seq"], hh["ack"], hh["type"], hh["length"], hh["count"], hh["ack_bits"])
                out.append((hb + body_ct, {"gen": "rewrite", "field": field}))
        # direction magic swapped
        out.append(((R.MAGIC_TO_SERVER if h["to_client"] else R.MAGIC_TO_CLIENT) + genuine[4:], {"gen": "rewrite", "field": "magic"}))
        # a "mutation" that reproduces the genuine bytes is a replay, not a forgery
        return [(d, m) for d, m in out if d != genuine]

    def wrong_key(self, to_client, my_seq, their_seq, other_session=None):
        out = []
        key = bytes(self.rng.randrange(256) for _ in range(16))
        for typ in (3, 4, 5, 6, 7):
            body = struct.pack(">H", 32000) + ATTACKER_MARK + b"wrongkey"
            h = R.enc_header(to_client, 1_700_000_123, R.ring_add(my_seq, 2), their_seq, typ, len(body), 1, 0xFFFFFFFF)
            out.append((R.seal_gcm(key, h, body), {"gen": "wrong-key", "type": typ}))
        if other_session:
            out.append((other_session, {"gen": "other-session-ciphertext"}))
        return out

    def garbage(self, to_client, nmax):
        rng = self.rng
        out = []
        for ln in [0, 1, 3, 4, 19, 20, 21, 24, 35, 36, 37] + [rng.randrange(nmax) for _ in range(20)] + [nmax, nmax + 64]:
            out.append((rng.randbytes(ln), {"gen": "garbage-random"}))
            magic = R.MAGIC_TO_CLIENT if to_client else R.MAGIC_TO_SERVER
            out.append(((magic + rng.randbytes(max(0, ln - 4)))[:max(ln, 4)], {"gen": "garbage-magic"}))
        for _ in range(16):
            ln = rng.randrange(0, 200)
            h = R.enc_header(to_client, rng.randrange(2 ** 32), rng.randrange(1, 65536), rng.randrange(65536),
                             rng.randrange(8), ln, rng.choice([0, 1, 2, 3, 255]), rng.randrange(2 ** 32))
            out.append((h + rng.randbytes(ln + rng.choice([0, 4, 16])), {"gen": "garbage-header"}))
        return out


class C01(UdpCheck):
    pid = "C01"
    level = "fault_enumeration"
    budget = {"quick": 75, "thorough": 800}
    ncases = {"quick": 800, "thorough": 20000}
    per_run_wall_s = 240
    rule = ("case = honest connection history (1-2 clients, all sizes and retry modes, loss/dup/delay) + injection points "
            "sampled over it (before any key, between hello and challenge, right after promotion, mid fragment train, with "
            "sends pending, idle, after disconnect); at every point, towards the server connection and towards the client, "
            "the COMPLETE grids are injected through the real entry points: forged plaintext for 8 packet types + 4 "
            "out-of-range x counts {0,1,2,3,255} x inner-type sets; all 160 header-bit and 128 tag-bit flips + sampled body "
            "flips, truncations, extensions and every header-field rewrite (with and without CRC repair) of the newest "
            "genuine datagram; wrong-key and other-session ciphertext; random bytes.  evaluations = simulated histories; "
            "non-trivial = at least 500 attacker datagrams reached _recv_datagram of an endpoint; distinct = digest")

    def gen(self, rng, tier, i):
        case = gen_traffic(rng, i, tier, nclients=rng.choice([1, 2]), n_msgs=rng.choice([3, 6, 12]), cb_p=0.5,
                           long_latency=False, settle=3.0)
        cfg, plan = case["cfg"], case["plan"]
        dur = cfg["duration"]
        n = len(cfg["clients"])
        pts = []
        # staged points: during the handshake of client 0, then spread over the history
        t_conn = min(op["t"] for op in plan if op["op"] == "connect" and op["c"] == 0)
        for dt in (0.0, cfg["latency"] * 1.0 + 0.004, cfg["latency"] * 2.0 + 0.03, 0.3):
            pts.append(t_conn + dt)
        for _ in range(rng.choice([3, 5, 8])):
            pts.append(rng.random() * (dur - 0.5))
        if rng.random() < 0.4:
            c = rng.randrange(n)
            td = round(1.0 + rng.random() * (dur - 2.5), 3)
            plan.append({"op": "disconnect", "c": c, "t": td})
            pts.append(td + 0.2)
        rng2 = random.Random("c01-extra|%s" % (rng.getstate()[1][:3],))     # (does not consume from the main stream)
        forced = {}
        if rng2.random() < 0.3:
            # the application did not configure the server's public key on client 0 (the UdpClient() default)
            for op in plan:
                if op["op"] == "connect" and op["c"] == 0:
                    op["pinned"] = False
        r2 = rng2.random()
        if r2 < 0.2:
            # the challenge response (and everything else client 0 sends) is lost for longer than the message timeout: the
            # client holds a key, the server still waits; forged datagrams arrive after the client's send timed out
            cfg.setdefault("phases", []).append({"t0": t_conn + cfg["latency"] * 0.5, "t1": t_conn + 1.6, "src": "c0", "dst": "S", "cut": True})
            pts.append(t_conn + 1.45)
            forced[round(t_conn + 1.45, 4)] = ("client", 0)
        elif r2 < 0.45:
            # an outage: the server hears nothing from client 0 for a while (shorter than the connection timeout); forged
            # datagrams in the client's name arrive towards the end of the silence
            T = cfg["server"].get("conn_timeout") or 5.0
            d = min(T - 0.7, 4.3)
            if d > 0.8 and dur > t_conn + 1.0 + d + 1.0:
                t_out = round(t_conn + 1.0 + rng2.random() * max(0.0, dur - t_conn - d - 2.0), 3)
                cfg.setdefault("phases", []).append({"t0": t_out, "t1": t_out + d, "src": "c0", "dst": "S", "cut": True})
                pts.append(t_out + d - 0.25)
                forced[round(t_out + d - 0.25, 4)] = ("server", 0)
        elif r2 < 0.55 and dur > t_conn + 8.0:
            # the client hears nothing from the server for more than 5 s (it reports DROPPED): it still holds its key, and
            # forged datagrams that arrive afterwards find a keyed endpoint
            t_out = round(t_conn + 1.0, 3)
            cfg.setdefault("phases", []).append({"t0": t_out, "t1": t_out + 6.0, "src": "S", "dst": "c0", "cut": True})
            pts.append(t_out + 5.6)
            forced[round(t_out + 5.6, 4)] = ("client", 0)
        for k, t in enumerate(sorted(pts)):
            c = rng.randrange(n)
            op = {"op": "grid", "t": round(t, 4), "c": c, "target": rng.choice(["server", "client", "both"]),
                  "n": k, "sub": rng.choice(["all", "all", "forge", "mutate"])}
            if round(t, 4) in forced:
                op["target"], op["c"] = forced[round(t, 4)]
                op["sub"] = "all"
            plan.append(op)
        return case

    def monitors(self, case):
        self.mon = AuthMonitor()
        return [self.mon, PoolGuard()]

    def prepare(self, w, case):
        Attacker(w)
        w.custom_ops["grid"] = self.op_grid

    def op_grid(self, w, cn, op):
        """Runs on the client's frame (cn = ClientNode)."""
        att = w.attacker
        rng = random.Random("grid|%s|%s" % (w.cfg["seed"], op["n"]))
        g = Grid(rng)
        cname = cn.name
        recv_size = w.cfg["mtu"] + 512
        for target in (("server", "client") if op["target"] == "both" else (op["target"],)):
            to_client = target == "client"
            frm, to = ("S", cname) if to_client else (cname, "S")
            mine = att.last_hdr.get(frm, {"seq": 0})["seq"]
            theirs = att.last_hdr.get(to, {"seq": 0})["seq"]
            dgs = []
            if op["sub"] in ("all", "forge"):
                dgs += g.forge_plain(to_client, mine, theirs)
                other = None
                if len(w.clients) > 1:
                    oc = "c%d" % ((cn.idx + 1) % len(w.clients))
                    lg = att.log.get(("S>%s" % oc) if to_client else ("%s>S" % oc))
                    if lg:
                        other = lg[-1][2]
                dgs += g.wrong_key(to_client, mine, theirs, other)
                dgs += g.garbage(to_client, recv_size)
            if op["sub"] in ("all", "mutate"):
                lg = att.log.get("%s>%s" % (frm, to))
                if lg:
                    dgs += g.mutate(lg[-1][2])
                    if len(lg) > 3:
                        dgs += g.mutate(lg[-1 - rng.randrange(1, min(len(lg), 30))][2])[:400]
            for d, meta in dgs:
                att.count(meta["gen"])
            if to_client:
                c = cn.client
                if c is None or cn.sock is None:
                    continue
                for d, meta in dgs:
                    tb = TaggedBytes(d)
                    tb.origin, tb.meta = "attacker", meta
                    cn.sock.queue.insert(0, (tb, SERVER_ADDR))
                    keyed = bool(c.conn is not None and c.conn.session_key_bytes)
                    sent0 = cn.sock.sent
                    try:
                        c.update()
                    except Exception as e:      # noqa
                        w.probe("client_update_raised_on_hostile_datagram_" + type(e).__name__)
                        if keyed:
                            # "is discarded": with a session key in place a hostile datagram is dropped, it does not come
                            # back to the application as an exception that also skips the send half of the frame (emission
                            # of the due datagram, timeout processing). Before a key exists the hello parser may raise.
                            w.violation("hostile_datagram_raised_out_of_client_update_on_keyed_connection",
                                        {"gen": meta.get("gen"), "exc": "%s: %s" % (type(e).__name__, str(e)[:60]), "len": len(d),
                                         "datagram_emitted_in_this_update": cn.sock is not None and cn.sock.sent != sent0},
                                        key="%s:%s" % (meta.get("gen"), type(e).__name__))
                    if cn.client is None or cn.client.conn is None:
                        break
                    for seq, msg in c.getMessages():
                        w.delivered(cn.name, c.conn, msg, seq)
                cn.track_status()
            else:
                for d, meta in dgs:
                    w.net.inject(cn.addr, SERVER_ADDR, d, meta=meta)

    def nontrivial(self, w, case):
        return self.mon.n_checked >= 500

    def judge(self, w, case):
        w.probes["attacker_datagrams_reaching_recv_datagram"] += self.mon.n_checked
        w.probes["of_which_before_any_key"] += self.mon.n_prekey
        return []

    def sample(self, w, case):
        s = super().sample(w, case)
        s["attacker_datagrams_checked"] = self.mon.n_checked
        s["injections"] = dict(w.injections)
        return s


CHECK = C01()
