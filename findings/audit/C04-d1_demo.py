"""
d1 (C04): a retransmitted message is delivered again once more than 256 newer
messages have been received.

No loss, no duplication, no reordering: just a round trip time of 150ms (longer
than the 100ms resend interval of RetryMode.BEST_EFFORT) and an application that
sends 300 small messages in the same frame as one BEST_EFFORT message.

ConnectionBase._recv_message() relies on BitField(256).insert() to detect the
retransmission. For a sequence number more than 256 behind the newest one the
mask `onehot >> (diff-1)` is 0, so insert() neither raises DuplicationError nor
remembers anything: the old copy is handed to the application again.
(_recv_datagram() has an "older than the window" check, _recv_message() has not.)

run: PYTHONPATH=/tmp/aud/B /venv/bin/python d1_demo.py
"""
import sys, time, heapq, itertools, struct, collections
import mpgameserver.connection as C
from mpgameserver.connection import (ClientServerConnection, ServerClientConnection,
    PacketHeader, ConnectionStatus, RetryMode)
from mpgameserver.context import ServerContext
from mpgameserver.handler import EventHandler


class Sim(object):
    """A real ClientServerConnection and a real ServerClientConnection, driven the
    way UdpClient.update() / UdpServerThread.run() drive them, with one fake clock
    (anchored at time.time()) and a scriptable network in between.

    policy(src, pkt, t) -> list of one-way delays for the datagram just emitted by
    `src` ("client"/"server"); [] = lost, two entries = duplicated.
    """
    TICK = 1/60 + 1e-6

    def __init__(self):
        self.t = time.time()
        sim = self
        # FragmentReceiver.expired() reads time.time() directly
        C.time = type("FakeTime", (), {"time": staticmethod(lambda: sim.t)})
        self.ctxt = ServerContext(EventHandler(), None)
        self.client = ClientServerConnection(("10.0.0.1", 4000))
        self.server = ServerClientConnection(self.ctxt, ("10.0.0.2", 5000))
        self.client.clock = self.server.clock = lambda: sim.t
        self.ctxt.temp_connections[self.server.addr] = self.server
        self.net, self.n = [], itertools.count()
        self.delivered = {"client": [], "server": []}   # what the application is handed
        self.policy = lambda src, pkt, t: [0.0]
        self.client._sendClientHello()
        for i in range(10):
            self.step()
        assert self.client.status == ConnectionStatus.CONNECTED
        assert self.server.status == ConnectionStatus.CONNECTED
        self.t0 = self.t

    def emit(self, src, pkt, datagram):
        dest = "server" if src == "client" else "client"
        for delay in self.policy(src, pkt, self.t):
            heapq.heappush(self.net, (self.t + delay, next(self.n), dest, datagram))

    def step(self):
        self.t += self.TICK
        while self.net and self.net[0][0] <= self.t:
            _, _, dest, d = heapq.heappop(self.net)
            conn = getattr(self, dest)
            conn._recv_datagram(PacketHeader.from_bytes(dest == "server", d), d)
            self.delivered[dest].extend(m for _, m in conn.incoming_messages)
            conn.incoming_messages = []
        # client: same calls as UdpClient.update()
        self.client.update()
        if self.t - self.client.last_send_time > self.client.send_interval:
            pkt = self.client._build_packet()
            if pkt is not None:
                self.emit("client", pkt, self.client._encode_packet(pkt))
            self.client._check_timeout(self.t)
        # server: same calls as UdpServerThread.run()/send()
        r = self.server.update()
        if r:
            pkt, key, addr = r
            self.emit("server", pkt, pkt.to_bytes(key))

def main():
    sim = Sim()
    sim.policy = lambda src, pkt, t: [0.075]     # 75ms each way, nothing lost

    sim.client.send(b"IMPORTANT", retry=RetryMode.BEST_EFFORT)
    for i in range(300):
        sim.client.send(b"x")                    # RetryMode.NONE

    for i in range(180):                         # 3 seconds
        sim.step()

    got = sim.delivered["server"]
    n = got.count(b"IMPORTANT")
    print("server application received b'IMPORTANT' %d time(s), b'x' %d time(s); "
          "datagrams dropped by server: %d" % (n, got.count(b"x"), sim.server.stats.dropped))
    assert got.count(b"x") == 300
    assert n == 1, "C04 violated: the BEST_EFFORT message was handed to the application %d times" % n

if __name__ == '__main__':
    main()
