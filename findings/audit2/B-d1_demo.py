"""
C04 (at-most-once): a fragmented message is delivered twice.

The receiver only remembers the ids of the last 256 completed fragmented
messages (ConnectionBase.completed_fragments).  Fragments that are sent again
after a timeout get a NEW message sequence number, so the 256-message
duplicate window never sees them: the completed_fragments list is the only
protection.  Resent fragments are appended to the END of the send queue, so
with a backlog of more than 256 fragmented messages the resend arrives after
its id was evicted from the list -> the whole message is reassembled and
handed to the application a second time.

Network schedule: forward path perfect (no loss, no duplication, no
reordering).  The reverse path (acks) is down for the first 0.8 s only.
Default configuration (MTU 1500, timeout 1 s, keep alive 0.1 s).
"""
import struct, sys, time
import mpgameserver.connection as C
from mpgameserver.connection import (ConnectionBase, ConnectionStatus, Packet,
    PacketHeader, RetryMode)

NOW = [time.time()]
class _FakeTime:                      # FragmentReceiver.expired() reads time.time()
    time = staticmethod(lambda: NOW[0])
C.time = _FakeTime

Packet.setMTU(1500)
KEY = b"k" * 16

def make(isServer):
    c = ConnectionBase(isServer, ("127.0.0.1", 1000 + isServer))
    c.clock = lambda: NOW[0]
    c.session_key_bytes = KEY
    c.status = ConnectionStatus.CONNECTED
    return c

sender = make(False)      # the client
receiver = make(True)     # the server side connection

delivered = {}            # message id -> number of times handed to the application
callbacks = {}

def pump(src, dst, lose):
    """one tick of the UdpClient / server loop for src, datagram goes to dst"""
    pkt = src._build_packet()
    if pkt is not None:
        datagram = src._encode_packet(pkt)
        assert len(datagram) <= Packet.MTU - 28
        if not lose:
            hdr = PacketHeader.from_bytes(dst.isServer, datagram)
            dst._recv_datagram(hdr, datagram)
    src._check_timeout(NOW[0])

def drain_app():
    for seq, msg in receiver.incoming_messages:
        ident, = struct.unpack(">L", msg[:4])
        delivered[ident] = delivered.get(ident, 0) + 1
    receiver.incoming_messages = []

# warm up: one datagram in each direction
NOW[0] += 1 / 60 + 1e-3
pump(sender, receiver, False)
pump(receiver, sender, False)

# the application queues 300 messages that are one byte too long for a single
# datagram (2 fragments each), e.g. a chunked asset transfer, all guaranteed
N = 300
size = Packet.MAX_PAYLOAD_SIZE + 1
for ident in range(N):
    payload = struct.pack(">L", ident) + b"x" * (size - 4)
    sender.send(payload, retry=RetryMode.RETRY_ON_TIMEOUT,
                callback=lambda ok, i=ident: callbacks.setdefault(i, []).append(ok))

t_start = NOW[0]
for tick in range(60 * 40):
    NOW[0] += 1 / 60 + 1e-3
    pump(sender, receiver, lose=False)                    # forward path: perfect
    drain_app()
    pump(receiver, sender, lose=(NOW[0] - t_start < 0.8)) # acks lost for 0.8 s

twice = sorted(i for i, n in delivered.items() if n > 1)
print("messages sent: %d, distinct delivered: %d, delivered more than once: %s"
      % (N, len(delivered), twice))
print("elapsed simulated seconds: %.1f" % (NOW[0] - t_start))
assert len(delivered) == N, "every message should arrive"
assert not twice, ("at-most-once violated: messages %s were handed to the "
                   "application twice" % twice)
print("OK")
