"""
C11 - a burst of CLIENT_HELLO datagrams from a few thousand (spoofed)
addresses makes the server drop its established clients.

Every well formed hello from an unknown address is answered inside the tick
loop, on the one server thread, with: a new EC key pair, an ECDH exchange, an
ECDSA signature and ServerContext.get_token(), which builds a set of the
tokens of *all* pooled connections for every single hello (quadratic in the
number of pending handshakes).  There is no limit on the number of pending
handshakes and no budget per tick: `while _queue:` works off the whole backlog
before anything else happens.  During that time the server neither sends keep
alives nor looks at the datagrams of its established clients, and as soon as
the backlog is done it evaluates client.timedout() - measured from the moment
the last datagram of that client was *processed* - before it reads the
datagrams that arrived meanwhile.  The established client, which never
stopped sending its keep alives, gets a disconnect event.

This demo uses real time and real threads (UdpServerThread as started by
TwistedServer/_UdpServer, a mock socket as in tests/server_test.py). The size
of the burst is derived from the measured cost of one hello so that the
outcome does not depend on the speed of the machine.

run: PYTHONPATH=/tmp/aud2/E /venv/bin/python d2_demo.py
"""
import sys, time, math, logging, threading

from mpgameserver import ServerContext, EventHandler
from mpgameserver.server import UdpServerThread
from mpgameserver.connection import (ClientServerConnection, ServerClientConnection,
    PacketHeader, ConnectionStatus)

logging.disable(logging.CRITICAL)

CONNECTION_TIMEOUT = 1.0    # ServerContext.setConnectionTimeout (keep alive stays 0.1s)

def make_hello():
    c = ClientServerConnection(("server", 1))
    c._sendClientHello()
    d = c._encode_packet(c._build_packet())
    return d

HELLO = make_hello()

def cost_of_one_hello():
    ctxt = ServerContext(EventHandler())
    hdr = PacketHeader.from_bytes(True, HELLO)
    t0 = time.perf_counter()
    n = 200
    for i in range(n):
        addr = ("10.9.%d.%d" % (i >> 8, i & 255), 9)
        client = ServerClientConnection(ctxt, addr)
        ctxt.temp_connections[addr] = client
        client._recv_datagram(hdr, HELLO)
    return (time.perf_counter() - t0) / n

class Handler(EventHandler):
    def __init__(self):
        self.events = []
        self.t0 = time.time()
    def connect(self, client):
        self.events.append(("connect", client.addr, round(time.time() - self.t0, 3)))
    def disconnect(self, client):
        self.events.append(("disconnect", client.addr, round(time.time() - self.t0, 3)))

class Socket(object):
    """ socket of the server: datagrams for the honest client reach it at once """
    def __init__(self):
        self.inbox = []
        self.lk = threading.Lock()
        self.sent = {}
    def sendto(self, datagram, addr):
        self.sent[addr] = self.sent.get(addr, 0) + len(datagram)
        if addr == HONEST:
            with self.lk:
                self.inbox.append(datagram)

HONEST = ("10.0.0.1", 1000)

handler = Handler()
ctxt = ServerContext(handler)
ctxt.setConnectionTimeout(CONNECTION_TIMEOUT)
sock = Socket()
thread = UdpServerThread(sock, ctxt)

def entry(addr, datagram):
    """ what _UdpServer.run / TwistedServer.datagramReceived do """
    if addr[0] in ctxt.blocklist:
        return
    hdr = PacketHeader.from_bytes(True, datagram)
    thread.append(addr, hdr, datagram)

# the honest client: UdpClient.update() at 60 frames per second
client = ClientServerConnection(("server", 1))
client_emits = []
client_running = True
def client_main():
    client._sendClientHello()
    while client_running:
        client.update()
        with sock.lk:
            inbox, sock.inbox = sock.inbox, []
        for d in inbox:
            client._recv_datagram(PacketHeader.from_bytes(False, d), d)
        client.incoming_messages = []
        t0 = client.clock()
        if client.status != ConnectionStatus.DROPPED and t0 - client.last_send_time > client.send_interval:
            pkt = client._build_packet()
            if pkt is not None:
                client_emits.append(time.time())
                entry(HONEST, client._encode_packet(pkt))
            client._check_timeout(t0)
        time.sleep(1 / 60)

cost = cost_of_one_hello()
N = max(1000, int(math.ceil(1.5 * CONNECTION_TIMEOUT / cost)))
print("one hello costs the server thread %.3f ms -> burst of %d hellos (%.1f MB)" % (cost * 1000, N, N * len(HELLO) / 1e6))

thread.start()
ct = threading.Thread(target=client_main, daemon=True)
ct.start()

t0 = time.time()
while not (client.status == ConnectionStatus.CONNECTED and HONEST in ctxt.connections):
    time.sleep(0.01)
    assert time.time() - t0 < 2, "the honest client could not connect"
time.sleep(0.5)
assert [e[0] for e in handler.events] == ["connect"], handler.events

# the burst: N well formed hellos, every one from another address
hdr = PacketHeader.from_bytes(True, HELLO)
burst = [(("44.%d.%d.%d" % (i >> 16, (i >> 8) & 255, i & 255), 4444), hdr, HELLO) for i in range(N)]
t_burst = time.time()
with thread.lk_queue:
    thread.queue.extend(burst)
    thread.cv_queue.notify_all()

# wait until the server worked off the burst, then two more seconds
while ctxt._active and (thread.queue and time.time() - t_burst < 120):
    time.sleep(0.05)
deadline = time.time() + 60
while time.time() < deadline and len(ctxt.temp_connections) + sum(1 for a in sock.sent if a[1] == 4444) < N:
    time.sleep(0.05)
t_done = time.time()
time.sleep(2.0)

client_running = False
ct.join()
ctxt._active = False
thread._wake()
thread.join()

emits = [t for t in client_emits if t_burst - 0.5 <= t <= t_done]
gaps = [b - a for a, b in zip(emits, emits[1:])]
print("the server needed %.2fs for the burst" % (t_done - t_burst))
print("the honest client sent %d keep alives meanwhile, longest pause %.3fs" % (len(emits), max(gaps) if gaps else -1))
print("handler events of the honest client:", [e for e in handler.events if e[1] == HONEST])
amplified = [a for a, n in sock.sent.items() if a[1] == 4444 and n > len(HELLO)]
print("replies larger than the hello:", len(amplified))

disconnects = [e for e in handler.events if e[0] == "disconnect" and e[2] < (t_done + 1.5 - handler.t0)]
if disconnects:
    print("VIOLATION: the established client was disconnected by the server (%r) although it never was silent "
          "for more than %.3fs (connection timeout %.1fs)" % (disconnects[0], max(gaps) if gaps else -1, CONNECTION_TIMEOUT))
    sys.exit(1)
print("ok")
