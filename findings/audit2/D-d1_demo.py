"""C18 - a continuation frame (opcode 0x0, RFC 6455 section 5.4) cannot be
built, cannot be parsed, is never delivered and desynchronises the stream.

A client sends the text message "Hello" in two fragments, then a second,
unfragmented text message "after":

    frame 1: FIN=0 opcode=0x1 (Text)          "Hel"
    frame 2: FIN=1 opcode=0x0 (Continuation)  "lo"
    frame 3: FIN=1 opcode=0x1 (Text)          "after"

Every one of these is a valid RFC 6455 client frame. Expected: the endpoint
sees the payloads "Hel", "lo", "after" exactly once and in order (how the
opcode of the continuation is reported is left open by this demo).
"""
import sys
# ---- helpers (mock twisted request, mock endpoint, RFC 6455 client encoder) ----
import struct

from mpgameserver.http_server import (
    WebSocketTemporaryHandler, WebSocketTemporaryRingBuffer)


def client_frame(fin, opcode, payload, key=b"\x11\x22\x33\x44", rsv=0):
    """encode one masked client frame exactly as RFC 6455 section 5.2 says
    (independent of the library's encoder)"""
    b0 = (fin << 7) | (rsv << 4) | opcode
    n = len(payload)
    if n <= 125:
        hdr = struct.pack("!BB", b0, 0x80 | n)
    elif n <= 0xFFFF:
        hdr = struct.pack("!BBH", b0, 0x80 | 126, n)
    else:
        hdr = struct.pack("!BBQ", b0, 0x80 | 127, n)
    masked = bytes(c ^ key[i % 4] for i, c in enumerate(payload))
    return hdr + key + masked


class FakeTwistedRequest(object):
    """stands in for the twisted http.Request the ring buffer writes to"""
    def __init__(self):
        self.chunked = 1
        self.written = []

    def write(self, data):
        self.written.append(bytes(data))


class Endpoint(object):
    """stands in for the Route object: records every callback"""
    def __init__(self, raise_on=None):
        self.delivered = []
        self.raise_on = raise_on

    def callback(self, handler, opcode, payload):
        if isinstance(payload, (bytearray, memoryview)):
            payload = bytes(payload)
        self.delivered.append((opcode.value, payload))
        if self.raise_on is not None and payload == self.raise_on:
            raise RuntimeError("application error while handling %r" % (payload,))


def make_handler(endpoint):
    request = FakeTwistedRequest()
    buf = WebSocketTemporaryRingBuffer(request)
    handler = WebSocketTemporaryHandler(("127.0.0.1", 50000), {}, {}, buf, endpoint)
    return handler, request


def feed(handler, chunks):
    """give the handler the tcp reads one after the other. an exception that
    escapes from the handler is recorded, the following reads are still fed
    (what was raised is printed by the caller)"""
    errors = []
    for chunk in chunks:
        try:
            handler(chunk)
        except Exception as e:
            errors.append("%s: %s" % (type(e).__name__, e))
    return errors
# ---- end of helpers ----

from mpgameserver.http_server import WebSocketOpCode, WebSocketFrame

failures = []

# ---- sentence 1: "for any opcode" -------------------------------------
# RFC 6455 defines six opcodes: 0x0 0x1 0x2 0x8 0x9 0xA. the library has no
# way to build or parse the first one.
try:
    op = WebSocketOpCode(0x0)
except ValueError as e:
    failures.append("WebSocketOpCode(0x0) (continuation) -> ValueError(%s): "
        "a continuation frame can neither be built nor parsed" % e)

wire = client_frame(1, 0x0, b"lo")
frame = WebSocketFrame()
try:
    frame.parseHeader(wire[:2])
except ValueError as e:
    failures.append("WebSocketFrame.parseHeader(%r) -> ValueError(%s)" % (wire[:2], e))

# ---- sentence 2: delivery, for two ways of cutting the stream ----------
frames = [
    client_frame(0, 0x1, b"Hel"),
    client_frame(1, 0x0, b"lo"),
    client_frame(1, 0x1, b"after"),
]
expected_payloads = ["Hel", "lo", "after"]

def norm(p):
    return p.decode("utf-8") if isinstance(p, bytes) else p

for name, chunks in (("one frame per read", frames),
                     ("all frames in one read", [b"".join(frames)])):
    endpoint = Endpoint()
    handler, _ = make_handler(endpoint)
    errors = feed(handler, chunks)
    got = [norm(p) for _, p in endpoint.delivered]
    print("%-24s delivered=%r" % (name, endpoint.delivered))
    print("%-24s escaped exceptions=%r" % ("", errors))
    print("%-24s bytes left in buffer=%r" % ("", handler._buffer.buf))
    if got != expected_payloads:
        failures.append("%s: endpoint saw %r, expected %r (exceptions: %r)" % (
            name, got, expected_payloads, errors))

# ---- the parser stops after the 2 byte header: the rest of the frame is
# ---- parsed as if it were the next frame. the masking key is chosen by the
# ---- client at random (RFC 6455 5.3), so every value is legitimate. with the
# ---- key 82 80 00 00 the left-over bytes form a "masked, empty, final Binary
# ---- frame" that the client never sent.
frames = [
    client_frame(0, 0x1, b"Hel"),
    client_frame(1, 0x0, b"lo", key=b"\x82\x80\x00\x00"),
    client_frame(1, 0x1, b"after"),
]
endpoint = Endpoint()
handler, _ = make_handler(endpoint)
errors = feed(handler, frames)
print("%-24s delivered=%r" % ("key 82 80 00 00", endpoint.delivered))
print("%-24s escaped exceptions=%r" % ("", errors))
if (0x2, b"") in endpoint.delivered:
    failures.append("phantom frame: the endpoint received an empty Binary frame "
        "that is not in the client's stream: %r" % (endpoint.delivered,))

if failures:
    print()
    for f in failures:
        print("VIOLATION:", f)
    sys.exit(1)
print("ok")
