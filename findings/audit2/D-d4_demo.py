"""C18 - control frames with more than 125 payload bytes are put on the wire.

RFC 6455 section 5.5: "All control frames MUST have a payload length of 125
bytes or less and MUST NOT be fragmented."  For the opcodes Close (0x8),
Ping (0x9) and Pong (0xA) there is no RFC 6455 encoding with the 7 bit length
indicator 126 or 127. The statement quantifies over every opcode and every
payload length 0..70000, so for these combinations the library can only be
"encoded as RFC 6455 prescribes" by refusing to build / write the frame.
It silently emits a frame that a conforming peer must answer by failing the
connection (section 5.5 / 7.1.7, status 1002).

Expected: building or writing such a frame raises, or (if written) the second
header byte carries a length <= 125.
"""
import sys
from mpgameserver.http_server import WebSocketFrame, writeFrameFactory


class Capture(object):
    def __init__(self):
        self.out = b""

    def sendall(self, data):
        self.out += bytes(data)


failures = []
for n in (125, 126, 127, 65535, 65536, 70000):
    for mask in (0, 1):
        builders = {
            "Ping": lambda: WebSocketFrame.Ping(b"x" * n),
            "Pong": lambda: WebSocketFrame.Pong(b"x" * n),
            "Close": lambda: WebSocketFrame.Close(1000, b"x" * (n - 2)),
        }
        for name, build in builders.items():
            try:
                frame = build()
                frame.flags.mask = mask
                frame.masking_key = b"\x01\x02\x03\x04"
                cap = Capture()
                writeFrameFactory(cap)(frame)
            except Exception as e:
                continue  # refusing is fine
            indicator = cap.out[1] & 0x7F
            if indicator > 125:
                failures.append("%s payload=%d mask=%d written with 7 bit length "
                    "indicator %d (header %s)" % (name, n, mask, indicator,
                    cap.out[:4].hex()))

for f in failures:
    print("VIOLATION:", f)
if failures:
    sys.exit(1)
print("ok")
