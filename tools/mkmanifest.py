#!/venv/bin/python
"""Regenerates /verif/MANIFEST.json from the table below (keeps it valid at all times)."""
import json
import os
import subprocess

HERE = os.path.dirname(os.path.dirname(os.path.abspath(__file__)))

TECH = "deterministic simulation with fault injection: seeded search over schedules/faults on the real code, oracle = "

CHECKS = {
    "C01": ("fault_enumeration", "6 C01", TECH + "endpoint-state snapshot equality around every attacker datagram + no attacker payload delivered + a connection keeps its first session key and leaves the pools only for a cause",
            "complete forge/flip/truncate/extend/retype grids enumerated at sampled points of simulated connection histories, both directions; sampled histories, not all"),
    "C02": ("exploration", "6 C02", TECH + "client adopts a key only from a payload the real root key signed; server promotes only on a challenge that opens under the issued key/token",
            "seeded MITM mutations/substitutions and loss/dup/reorder of the three handshake datagrams over many derived key pairs"),
    "C03": ("exploration", "6 C03", TECH + "wire tap: nonce set per session key has no repeat, every post-key datagram opens under the key with full-header AAD, no app bytes in clear",
            "long simulated sessions wrapping the 16-bit sequence ring, app rates up to 10 kHz, restarts, clock offsets"),
    "C04": ("exploration", "6 C04", TECH + "multiset deliveries<=sends and snapshot equality for every byte-identical copy of an accepted datagram",
            "adversarial duplication/reordering/delay schedules and attacker replays at distances around 32, 256 and the ring wrap"),
    "C05": ("exploration", "6 C05", TECH + "bounded liveness after heal: every accepted guaranteed send is in the peer's delivery log if both ends are still open",
            "lengths stratified over every capacity/fragment boundary x MTU x loss/dup/delay/partition phases x both APIs"),
    "C06": ("exploration", "6 C06", TECH + "delivered payloads are a sub-multiset of sent ones byte for byte; independent reassembly of fragments seen at _build_packet",
            "lengths/contents/MTU/fragment orders, several fragmented messages in flight, over-limit sends"),
    "C07": ("exploration", "6 C07", TECH + "history check of callback log vs peer acceptance log, first transmission times and acks received; datagram accounting invariant each tick",
            "RTT around resend interval and timeout, ack-path loss, replays and forged ack fields"),
    "C08": ("exploration", "6 C08", TECH + "set-based window reference model vs emitted ack/ack_bits and duplicate flags; shadow BitFields of widths 8..256; modular-arithmetic model for SeqNum on reached pairs",
            "network-generated arrival histories incl. ring wrap; pure for-all-pairs arithmetic only on pairs histories produce"),
    "C09": ("exploration", "6 C09", TECH + "independent reference codec decodes every emitted datagram and must reproduce the packet seen at _build_packet; size/first-fit maximality/conservation invariants",
            "every MTU class, bursts of hundreds of tiny messages, boundary lengths, resend+new mixes"),
    "C10": ("exploration", "6 C10", TECH + "per-client regular expression connect.message*.disconnect over the handler event history, single thread, distinct tokens, bounded liveness of disconnect (peer, silence, server-initiated, shutdown), misbehaving protocol-complete clients",
            "multi-client interleavings, handler exceptions, reconnects from same address, shutdown at any tick, forced token collisions, three entry points"),
    "C11": ("exploration", "6 C11", TECH + "loop thread alive, honest echo within bound, zero processing/reply for block-listed sources, bytes out <= bytes in per unauthenticated address at every instant",
            "bulk hostile datagrams of all generators from any claimed source interleaved with honest echo traffic"),
    "C12": ("exploration", "6 C12", TECH + "interval model of liveness deadlines: keep-alive gaps, stay-up, drop/DROPPED/connect-failure windows, setter effect",
            "keep-alive/timeouts/tick rates under the statement's constraint, idle up to hours of virtual time, link cut at arbitrary instants, all setter orders"),
    "C18": ("exploration", "6 C18", TECH + "endpoint log equals the frame list sent (once, in order, unmasked); written frames byte-identical to an independent RFC 6455 codec",
            "frame lists with boundary lengths cut into TCP read chunks by the seeded scheduler"),
}

NA = {
    "C13": "pure function of the value (decode(encode(v))): no clock, I/O, peer, thread or fault to simulate; input generation is not simulation",
    "C14": "pure function of the byte string (outcome and resource use); virtual time says nothing about CPU/memory. The network-reachable slice (hostile hello bodies) is driven under C11 with C11's oracle",
    "C15": "pure function of the object (typed JSON round trip)",
    "C16": "pure function of (patterns, order, method, path); the only time-dependent part of dispatch (429 limiter) is outside the statement",
    "C17": "pure function of two strings and the process cwd",
    "C19": "pure function of (password, salt bytes, hash string); the salt is the only nondeterminism and there is no schedule or fault",
    "C20": "sequential in-memory registry with no time, I/O, concurrency or failure mode; operation sequences against a model would be model-based testing, not fault-injecting simulation",
}


def main():
    have = sorted(p for p in CHECKS if os.path.exists(os.path.join(HERE, "checks", p.lower() + ".py")))
    checks = []
    for pid in have:
        level, ref, tech, note = CHECKS[pid]
        checks.append({
            "property_id": pid,
            "quick_cmd": "bin/check %s --tier quick" % pid,
            "thorough_cmd": "bin/check %s --tier thorough" % pid,
            "evidence_file": "evidence/%s.json" % pid,
            "replay_cmd_template": "bin/check %s --replay {path}" % pid,
            "engine": "simkit",
            "level_claimed": {"category": level,
                              "text": "seeded search over simulated executions of the real code under a simulator that owns time, "
                                      "network, threads, randomness and the attacker; a clean batch is evidence about the explored "
                                      "schedules/faults/inputs (counted in the evidence file), not a proof. " + note,
                              "design_ref": "DESIGN.md section " + ref},
            "level_note": "trusts the cryptography library (AES-GCM/ECDSA/ECDH/HKDF), seam-level thread pre-emption (DESIGN.md 3.2), "
                          "one MTU per run, non-decreasing clocks; sampling, not exhaustive",
            "technique": tech,
        })
    na = [{"property_id": p, "reason": r} for p, r in sorted(NA.items())]
    for pid in sorted(CHECKS):
        if pid not in have:
            na.append({"property_id": pid, "reason": "check not built yet in this round (simulation target per DESIGN.md; not claimed until its check exists)"})
    try:
        hooks = subprocess.run(["git", "-C", "/repo", "log", "--format=%h %s"], capture_output=True, text=True).stdout.splitlines()
    except Exception:       # noqa
        hooks = []
    m = {
        "version": 1,
        "setup_cmd": "bin/setup",
        "hooks": {"guard": "MPGAMESERVER_VERIF", "enable": "none needed: every seam is installed from outside by world/seams.py "
                  "(module/class attributes); the guard name is reserved and unused",
                  "baseline_off_cmd": "cd /repo && /venv/bin/python -m pytest -ra -q -p no:cacheprovider --timeout=900 --continue-on-collection-errors",
                  "source_commits": [], "add_only": True},
        "engines": [{"name": "simkit", "path": "simkit/", "serves_properties": have,
                     "kind_free_text": "own discrete-event simulator: virtual clocks per node, baton-passed real threads, simulated UDP "
                                       "network with keyed-hash fate decisions + explicit fault table, Dolev-Yao attacker, ddmin shrinker, "
                                       "replay files; binds to the repository through world/seams.py"}],
        "checks": checks,
        "not_applicable": na,
        "notes": "fix: commits in /repo (genuine defects repaired, see known_findings.json): " + "; ".join(h for h in hooks if " fix:" in h),
    }
    json.dump(m, open(os.path.join(HERE, "MANIFEST.json"), "w"), indent=1)
    print("MANIFEST.json:", len(checks), "checks,", len(na), "not applicable")


if __name__ == "__main__":
    main()
