#!/venv/bin/python
"""
C11 demo: one oversized datagram ends the receive loop of the reference udp
server (_UdpServer.run) on a platform where recvfrom() reports a datagram
that is larger than the receive buffer as an error (Windows: WSAEMSGSIZE,
OSError [WinError 10040]) instead of truncating it (POSIX).

ee79e90 made the loop survive the other error windows reports through
recvfrom (WSAECONNRESET -> ConnectionResetError); any other OSError still
propagates out of run().

The socket is an in memory fake with the receive semantics of the platform
(the rest - _UdpServer.run, UdpServerThread, the connections - is the real
library). exit status 0 = the server keeps serving after the oversized datagram.
"""
import sys, os, logging, time, types, threading
sys.path.insert(0, os.path.dirname(os.path.dirname(os.path.abspath(__file__))))

import mpgameserver.server as mserver
from mpgameserver import ServerContext, EventHandler
from mpgameserver.server import _UdpServer
from mpgameserver.connection import PacketHeader, PacketType, Packet, ClientServerConnection

logging.disable(logging.CRITICAL)

WSAEMSGSIZE = 10040

class FakeSocket(object):
    """ a datagram socket fed from a list """
    def __init__(self, windows, incoming, ctxt):
        self.windows = windows
        self.incoming = list(incoming)
        self.ctxt = ctxt
        self.sent = []
        self.lock = threading.Lock()
        self.read = 0
    def setsockopt(self, *args): pass
    def bind(self, addr): pass
    def fileno(self): return 3
    def sendto(self, datagram, addr):
        with self.lock:
            self.sent.append((datagram, addr))
    def replies(self, pkt_type):
        with self.lock:
            return set(addr for d, addr in self.sent
                if PacketHeader.from_bytes(False, d).pkt_type == pkt_type)
    def recvfrom(self, bufsize):
        if self.incoming:
            datagram, addr = self.incoming.pop(0)
            self.read += 1
            if len(datagram) > bufsize:
                if self.windows:
                    # the datagram is consumed and the call fails
                    raise OSError(WSAEMSGSIZE, "A message sent on a datagram socket was larger "
                        "than the internal message buffer or some other network limit, or the buffer "
                        "used to receive a datagram into was smaller than the datagram itself")
                datagram = datagram[:bufsize]     # posix: silently truncated
            return datagram, addr
        # nothing left: give the server thread (real time) up to 3 seconds
        # to answer what it was given, then shut the server down
        t0 = time.monotonic()
        while time.monotonic() - t0 < 3.0 and len(self.replies(PacketType.SERVER_HELLO)) < 2:
            time.sleep(0.01)
        self.ctxt._active = False
        return b"", ("10.9.9.9", 9)

def hello_datagram(addr):
    conn = ClientServerConnection(addr)
    conn._sendClientHello()
    return conn._encode_packet(conn._build_packet())

A = ("10.0.0.1", 4001)      # honest client before the oversized datagram
M = ("10.6.6.6", 666)       # anyone
B = ("10.0.0.2", 4002)      # honest client after it

def run(windows):
    ctxt = ServerContext(EventHandler())
    incoming = [
        (hello_datagram(A), A),
        (b"\x00" * (Packet.RECV_SIZE + 1), M),
        (hello_datagram(B), B),
    ]
    sock = FakeSocket(windows, incoming, ctxt)
    mserver.socket = types.SimpleNamespace(socket=lambda *a: sock,
        AF_INET=2, SOCK_DGRAM=2, SOL_SOCKET=1, SO_REUSEADDR=2)
    server = _UdpServer(ctxt, ("0.0.0.0", 1474))
    error = None
    try:
        server.run()        # the receive loop, on this thread
    except Exception as e:
        error = e
        # what the process would do next is exit (the worker is a daemon thread).
        # give the worker the same 3 seconds, then stop it
        t0 = time.monotonic()
        while time.monotonic() - t0 < 3.0 and len(sock.replies(PacketType.SERVER_HELLO)) < 2:
            time.sleep(0.01)
        ctxt._active = False
    server.thread._wake()
    server.thread.join()
    answered = sock.replies(PacketType.SERVER_HELLO)
    return error, sock.read, answered

def main():
    rc = 0
    for windows in (False, True):
        error, read, answered = run(windows)
        print("== recvfrom %s a datagram of RECV_SIZE+1 = %d bytes" % (
            "fails with WSAEMSGSIZE for (windows)" if windows else "truncates (posix)", Packet.RECV_SIZE + 1))
        print("  _UdpServer.run() ended with: %r" % (error,))
        print("  datagrams read from the socket: %d of 3" % read)
        print("  server hello sent to: %s" % sorted(answered))
        problems = []
        if error is not None:
            problems.append("the receive loop of the server stopped: %s" % error)
        if B not in answered:
            problems.append("the client that said hello after the oversized datagram got no answer")
        if problems:
            rc = 1
            print("  FAIL: C11 violated:")
            for p in problems:
                print("   - " + p)
        else:
            print("  ok")
    return rc

if __name__ == '__main__':
    sys.exit(main())
