#!/venv/bin/python
"""evalmut.py <ID> <k> [--checks C05,C07] [--tier quick]
Confirms a seeded change produced by a sub-agent (/tmp/mut/<ID>/out/m<k>.*) in a scratch worktree and runs the
checks against it.  On success copies it to /verif/seeded/<ID>-m<k>/ (patch.diff, demo.py, meta.json)."""
import os
import sys
import json
import shutil
import argparse
import subprocess

VERIF = os.path.dirname(os.path.dirname(os.path.abspath(__file__)))
PY = "/venv/bin/python"


def sh(cmd, cwd=None, env=None, timeout=3600):
    p = subprocess.run(cmd, shell=True, cwd=cwd, env=env, capture_output=True, text=True, timeout=timeout)
    return p.returncode, (p.stdout + p.stderr)


def main():
    ap = argparse.ArgumentParser()
    ap.add_argument("pid")
    ap.add_argument("k")
    ap.add_argument("--checks")
    ap.add_argument("--tier", default="quick")
    ap.add_argument("--src", default=None)
    ap.add_argument("--keep", action="store_true")
    ap.add_argument("--tag", default="")
    a = ap.parse_args()
    src = a.src or "/tmp/mut/%s/out" % a.pid
    diff = os.path.join(src, "m%s.diff" % a.k)
    demo = os.path.join(src, "m%s_demo.py" % a.k)
    meta = json.load(open(os.path.join(src, "m%s.json" % a.k))) if os.path.exists(os.path.join(src, "m%s.json" % a.k)) else {}
    wt = "/tmp/evalwt_%s_%s%s" % (a.pid, a.tag, a.k)
    sh("git -C /repo worktree remove --force %s" % wt)
    rc, out = sh("git -C /repo worktree add -q %s HEAD" % wt)
    if rc:
        print(out)
        return 2
    res = {"property": a.pid, "k": a.k, "summary": meta.get("summary"), "needs": meta.get("needs")}
    try:
        env = dict(os.environ, PYTHONPATH=wt)
        # demo passes on the clean tree
        rc0, out0 = sh("%s %s" % (PY, demo), cwd=wt, env=env, timeout=600)
        res["demo_clean_exit"] = rc0
        rc, out = sh("git apply --whitespace=nowarn %s" % diff, cwd=wt)
        if rc:
            rc, out = sh("git apply --whitespace=nowarn --ignore-whitespace %s" % diff, cwd=wt)
        res["applies"] = rc == 0
        if rc:
            print("patch does not apply:", out[-600:])
            return 2
        rc, out = sh("git diff --stat | tail -1", cwd=wt)
        res["diffstat"] = out.strip()
        rc1, out1 = sh("%s %s" % (PY, demo), cwd=wt, env=env, timeout=600)
        res["demo_mutant_exit"] = rc1
        rct, outt = sh("%s -m pytest -q -p no:cacheprovider --timeout=900 2>&1 | tail -2" % PY, cwd=wt, env=env, timeout=1800)
        res["tests"] = outt.strip().splitlines()[-1] if outt.strip() else ""
        ok = rc0 == 0 and rc1 != 0 and " passed" in res["tests"] and "failed" not in res["tests"]
        res["confirmed"] = ok
        print(json.dumps(res, indent=1))
        checks = (a.checks or a.pid).split(",")
        res["checks"] = {}
        for c in checks:
            env2 = dict(os.environ, VERIF_REPO=wt)
            env2.pop("PYTHONPATH", None)
            rc, out = sh("bin/check %s --tier %s" % (c, a.tier), cwd=VERIF, env=env2, timeout=7200)
            lines = [l for l in out.splitlines() if l.startswith("VIOLATION") or l.startswith("violation:") or "HARNESS" in l or " quick:" in l or " thorough:" in l]
            res["checks"][c] = {"exit": rc, "detected": rc == 1, "lines": [l[:300] for l in lines[:6]]}
            print(c, "exit", rc, "DETECTED" if rc == 1 else "MISSED" if rc == 0 else "ERROR")
            for l in lines[:6]:
                print("   ", l[:260])
        if ok:
            d = os.path.join(VERIF, "seeded", "%s-%sm%s" % (a.pid, a.tag, a.k))
            os.makedirs(d, exist_ok=True)
            shutil.copy(diff, os.path.join(d, "patch.diff"))
            shutil.copy(demo, os.path.join(d, "demo.py"))
            res["ran"] = "tools/evalmut.py %s %s --checks %s --tier %s (scratch worktree of /repo HEAD %s, patch applied, existing tests, demo with/without, checks with VERIF_REPO=<worktree>)" % (
                a.pid, a.k, ",".join(checks), a.tier, subprocess.run("git -C /repo log --format=%h -1", shell=True, capture_output=True, text=True).stdout.strip())
            json.dump(res, open(os.path.join(d, "meta.json"), "w"), indent=1)
    finally:
        if not a.keep:
            sh("git -C /repo worktree remove --force %s" % wt)
    return 0


if __name__ == "__main__":
    sys.exit(main())
