#!/venv/bin/python
"""Prints the markdown table of seeded changes (DESIGN.md 11.6) from seeded/*/meta.json."""
import glob, json, os
HERE = os.path.dirname(os.path.dirname(os.path.abspath(__file__)))
rows = []
for f in sorted(glob.glob(os.path.join(HERE, "seeded", "*", "meta.json"))):
    m = json.load(open(f))
    name = os.path.basename(os.path.dirname(f))
    det = [c for c, r in m.get("checks", {}).items() if r.get("detected")]
    miss = [c for c, r in m.get("checks", {}).items() if not r.get("detected")]
    summ = (m.get("summary") or "").replace("|", "/").replace("\n", " ")
    rows.append("| %s | %s | %s | %s |" % (name, summ[:170] + ("..." if len(summ) > 170 else ""),
                                           ", ".join(det) or "-", ", ".join(miss) or "-"))
print("| seeded change | what was changed | caught by | run but not caught by |")
print("|---|---|---|---|")
print("\n".join(rows))
print("\n%d seeded changes, %d caught by at least one check" % (len(rows), sum(1 for r in rows if not r.split("|")[3].strip() == "-")))
