"""
C08: SeqNum overrides < and > with ring (wrap aware) semantics but leaves
<= and >= inherited from int.  Across the wrap the two families of comparison
contradict each other: SeqNum(65535) < SeqNum(1) is True ("1 is newer") while
SeqNum(65535) <= SeqNum(1) is False.  User handlers receive SeqNum objects
(EventHandler.handle_message(client, seqnum, msg)) and the natural
"if seqnum >= self.newest_seen" staleness test breaks once per 65535 messages.
"""
from mpgameserver.connection import SeqNum

M = 65535
def ring(v, k):
    return ((v - 1 + k) % M) + 1

failures = []
checked = 0
for v in (1, 2, 100, 32767, 32768, 65000, 65503, 65534, 65535):
    for off in (1, 2, 31, 32, 33, 255, 256, 1000, 32766, 32767):
        older = SeqNum(v)
        newer = SeqNum(ring(v, off))
        checked += 1
        # sanity: the strict comparisons are right (this part passes)
        assert older < newer and newer > older, (older, newer)
        assert newer.newer_than(older) and newer.diff(older) == off
        # the non strict comparisons must agree with them
        if not (older <= newer):
            failures.append("SeqNum(%d) <= SeqNum(%d) is False although SeqNum(%d) < SeqNum(%d) is True" % (older, newer, older, newer))
        if not (newer >= older):
            failures.append("SeqNum(%d) >= SeqNum(%d) is False although SeqNum(%d) > SeqNum(%d) is True" % (newer, older, newer, older))
        if newer <= older:
            failures.append("SeqNum(%d) <= SeqNum(%d) is True although it is %d newer" % (newer, older, off))
        if older >= newer:
            failures.append("SeqNum(%d) >= SeqNum(%d) is True although it is %d older" % (older, newer, off))

for f in failures[:12]:
    print("FAIL", f)
print("%d pairs checked, %d wrong answers" % (checked, len(failures)))
assert not failures, "SeqNum <= / >= are not wrap aware"
print("ok")
