"""
C18: a frame built with the mask flag set and a non-zero masking key is written
with the masking key in the header but with the payload NOT xor-ed with it.
RFC 6455 5.3 requires the payload of a frame whose MASK bit is 1 to be
transformed with the key; the library's own parser (which does unmask) therefore
reads back a different payload.
"""
import struct
from mpgameserver.http_server import (WebSocketFrame, WebSocketOpCode,
    readFrameFactory, writeFrameFactory)

class Pipe(object):
    def __init__(self): self.buf = b""
    def sendall(self, data): self.buf += bytes(data)
    def recv(self, n):
        data, self.buf = self.buf[:n], self.buf[n:]
        return data

def rfc6455_encode(fin, opcode, mask, key, payload):
    b0 = (fin << 7) | opcode
    n = len(payload)
    if n <= 125:
        hdr = struct.pack("!BB", b0, (mask << 7) | n)
    elif n <= 0xFFFF:
        hdr = struct.pack("!BBH", b0, (mask << 7) | 126, n)
    else:
        hdr = struct.pack("!BBQ", b0, (mask << 7) | 127, n)
    if mask:
        hdr += key
        payload = bytes(b ^ key[i % 4] for i, b in enumerate(payload))
    return hdr + payload

failures = []
key = b"\x11\x22\x33\x44"
for length in (1, 5, 125, 126, 65535, 65536):
    payload = bytes((i * 7 + 3) & 0xFF for i in range(length))

    frame = WebSocketFrame.Binary(payload)
    frame.flags.mask = 1
    frame.masking_key = key

    pipe = Pipe()
    writeFrameFactory(pipe)(frame)
    wire = pipe.buf

    if wire != rfc6455_encode(1, WebSocketOpCode.Binary.value, 1, key, payload):
        failures.append("len=%d: bytes on the wire are not the RFC 6455 encoding "
                        "(payload sent unmasked although MASK=1)" % length)

    parsed = readFrameFactory(pipe)()
    if bytes(parsed.payload) != payload:
        failures.append("len=%d: frame does not parse back to the same payload "
                        "(%r... != %r...)" % (length, bytes(parsed.payload[:4]), payload[:4]))

for f in failures:
    print("FAIL", f)
assert not failures, "%d websocket mask round trip failures" % len(failures)
print("ok")
