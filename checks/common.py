"""Shared machinery of the World-A checks: swarm configuration, traffic plans, result packing."""
import json
import random
import struct
import collections

from simkit.runner import h64
from world.udpworld import World, Monitor, conn_mod, server_mod, Packet, PacketHeader, ConnectionStatus, client_addr

REAL = [
    "mpgameserver/connection.py (all of it: SeqNum, BitField, PacketHeader, Packet, handshake messages, "
    "FragmentSender/Receiver, RetrySender, ConnectionBase, ClientServerConnection, ServerClientConnection)",
    "mpgameserver/client.py UdpClient (connect/update/send/send_guaranteed/disconnect/setters/getMessages)",
    "mpgameserver/server.py UdpServerThread.run/append/send/_wake, sleep(), _UdpServer.run",
    "mpgameserver/twisted.py TwistedServer.__init__/datagramReceived/sendPackets/sendPacketsUnsafe/stop",
    "mpgameserver/context.py ServerContext, mpgameserver/handler.py, mpgameserver/crypto.py",
    "cryptography/OpenSSL: AES-GCM, ECDH, HKDF, ECDSA verify, DER parsing",
]
STUB = [
    "sockets, select, time (virtual clock per node), os.urandom (seeded), EC key generation entropy (seeded scalars), "
    "ECDSA nonce (RFC 6979 deterministic)",
    "threading.Lock/Condition of the server queue (SimLock/SimCondition), Thread.start/join of UdpServerThread (baton thread)",
    "Twisted reactor (callFromThread -> simulator event) and UDP transport",
    "the network, the attacker, the server application (SimHandler) and the client game loops (scripted)",
]
ASSUME = [
    "AES-GCM, ECDSA, ECDH and HKDF of the cryptography library are correct and unforgeable",
    "thread pre-emption at seam calls (sleep, Condition.wait, blocking recvfrom, clock reads, lock acquire/release), at every "
    "source line of the server's thread-facing functions and at every bytecode instruction of append/_wake (DESIGN.md 3.2, 11.2); "
    "races inside one statement elsewhere are out of reach",
    "generated workloads stay within what the sender can transmit, keep the message timeout above the worst round trip and the "
    "client frame period at or below the server's per-client send period (DESIGN.md 11.2)",
    "one MTU per run for all nodes; clocks have offsets/skew/small forward steps but never run backwards",
    "CPU time and memory are not modelled: starvation by computation and resource exhaustion are invisible (DESIGN.md 10)",
]

MTUS = [512, 513, 576, 1000, 1280, 1499, 1500,
        1089, 1090, 1093, 1095, 1096, 1097]      # around MAX_PAYLOAD_SIZE == 1024 (+6): the fragment-size rule switches


def limits(mtu):
    """Reference size arithmetic, independent of Packet's class attributes."""
    max_size = mtu - 28
    cap1 = max_size - 20 - 16 - 2          # largest unfragmented payload (documented)
    frag = 1024 if cap1 >= 1024 + 6 else cap1 - 6
    return {"max_size": max_size, "cap1": cap1, "frag": frag, "room": max_size - 36}


def boundary_lengths(mtu):
    L = limits(mtu)
    cap1, frag = L["cap1"], L["frag"]
    s = set(range(0, 12))
    for c in (cap1, cap1 - 3, cap1 - 5):
        s.update(range(max(0, c - 6), c + 7))
    for k in (1, 2, 3, 4):
        s.update(range(k * frag - 4, k * frag + 5))
        # multiple + enlarged last fragment (last slice may grow to cap1-6)
        s.update(range(k * frag + cap1 - 6 - 4, k * frag + cap1 - 6 + 5))
    s.update((cap1 // 2, cap1 // 2 + 1, 5 * frag + 17, 7 * frag - 1))
    return sorted(x for x in s if x >= 0)


def pick_len(rng, mtu, i, j, big=65536):
    """Stratified: sweeps the boundary list across (case, op) indexes, mixed with random sizes."""
    b = boundary_lengths(mtu)
    r = rng.random()
    if r < 0.55:
        return b[(i * 7 + j) % len(b)]
    if r < 0.80:
        return rng.randrange(0, limits(mtu)["cap1"] + 1)
    if r < 0.97:
        return rng.randrange(limits(mtu)["cap1"] + 1, 12000)
    return rng.randrange(12000, big)


def swarm_cfg(rng, nclients=None, entry=None, long_latency=True):
    mtu = rng.choice(MTUS) if rng.random() < 0.7 else rng.randrange(512, 1501)
    n = nclients or rng.choice([1, 1, 2, 3])
    lat = rng.choice([0.0, 0.001, 0.01, 0.03, 0.06, 0.12, 0.25, 0.4]) if long_latency else rng.choice([0.0, 0.005, 0.02, 0.05])
    interval = rng.choice([1 / 120, 1 / 60, 1 / 60, 1 / 30, 1 / 10])
    # the library's client reads one datagram per update(): a client slower than the server's
    # per-client send rate (one datagram per tick, capped at 60/s) can never catch up - an
    # application-level overload, not a network fault, so the swarm keeps client dt <= that period
    dts = [d for d in (1 / 240, 1 / 120, 1 / 60, 1 / 60, 1 / 30, 1 / 15) if d <= max(interval, 1 / 60) + 1e-12]
    cfg = {
        "mtu": mtu,
        "entry": entry or rng.choice(["bare", "twisted", "udpserver"]),
        "latency": lat,
        "jitter": rng.choice([0.0, 0.0, 0.002, 0.02, 0.08, 0.2]),
        "reactor_lag": rng.choice([0.0, 0.0, 0.001, 0.01, 0.03]),
        "wake_lag": rng.choice([0.0, 0.0, 0.00005, 0.002, 0.02]),
        "instr_cost": rng.choice([1e-6, 1e-6, 5e-6, 2e-5]),
        "server": {"interval": interval, "configure_after_construction": rng.random() < 0.3,
                   "offset": 1.7e9 + rng.randrange(0, 10 ** 6), "rate": 1.0 + rng.choice([0, 0, 1e-3, -1e-3])},
        "clients": [{"dt": rng.choice(dts),
                     "offset": 1.7e9 + rng.randrange(-10 ** 5, 10 ** 6),
                     "rate": 1.0 + rng.choice([0, 0, 1e-3, -1e-3]),
                     "t0": rng.random() * 0.05} for _ in range(n)],
        "phases": [],
    }
    cfg["server"]["access_log"] = rng.random() < 0.3
    cfg["client_unwritable_p"] = rng.choice([0.0, 0.0, 0.0, 0.0, 0.1, 0.4])
    return cfg


def fault_phase(rng, t0, t1, heavy=False):
    kinds = rng.sample(["loss", "dup", "delay", "burst", "oneway"], rng.randrange(1, 4))
    ph = []
    base = {"t0": t0, "t1": t1}
    p = dict(base)
    if "loss" in kinds:
        p["loss"] = rng.choice([0.02, 0.05, 0.1, 0.2, 0.3] + ([0.5] if heavy else []))
    if "dup" in kinds:
        p["dup"] = rng.choice([0.02, 0.1, 0.3])
        p["dup_delay"] = rng.choice([0.0, 0.0, 0.3, 1.5])
    if "delay" in kinds:
        p["delay_p"] = rng.choice([0.05, 0.2, 0.5])
        p["delay"] = rng.choice([0.05, 0.15, 0.5, 1.2])
    if len(p) > 2:
        ph.append(p)
    if "burst" in kinds:
        b0 = t0 + rng.random() * max(0.01, (t1 - t0 - 1.0))
        ph.insert(0, {"t0": b0, "t1": b0 + rng.choice([0.1, 0.3, 0.8, 2.0]), "cut": True})
    if "oneway" in kinds:
        b0 = t0 + rng.random() * max(0.01, (t1 - t0 - 1.0))
        side = rng.choice(["src", "dst"])
        ph.insert(0, {"t0": b0, "t1": b0 + rng.choice([0.2, 0.6, 1.5, 2.5]), side: "S", "cut": True})
    return ph


class StateSampler(Monitor):
    """Counts distinct abstract states visited (reach measure reported in evidence)."""

    def on_tick(self):
        w = self.w

        def b(n):
            return 0 if n == 0 else 1 if n == 1 else 2 if n < 8 else 3 if n < 64 else 4
        st = []
        for cn in w.clients:
            c = cn.client
            if c is None or c.conn is None:
                st.append(None)
            else:
                cc = c.conn
                st.append((cc.status.value, b(len(cc.pending_acks)), b(len(cc.outgoing_messages)),
                           b(len(cc.pending_retry_msg)), b(len(cc.received_fragments))))
        sv = []
        for conn in w.ctxt.connections.values():
            sv.append((conn.status.value, b(len(conn.pending_acks)), b(len(conn.outgoing_messages)),
                       b(len(conn.pending_retry_msg)), b(len(conn.received_fragments))))
        w.abstract_states.add((tuple(st), tuple(sorted(sv)), b(len(w.ctxt.temp_connections))))


class UdpCheck:
    """Base of the World-A checks."""
    pid = "C00"
    level = "exploration"
    budget = {"quick": 60, "thorough": 900}
    ncases = {"quick": 200, "thorough": 20000}
    components_real = REAL
    components_stub = STUB
    assumptions = ASSUME
    rule = ""
    keep_states = True

    # -- generation
    def cases(self, tier, seed):
        for i in range(self.ncases[tier]):
            rs = h64(seed, self.pid, i)
            rng = random.Random(rs)
            case = self.gen(rng, tier, i)
            case["seed"] = rs
            case["cfg"]["seed"] = rs
            case.setdefault("fates", None)
            yield i, case

    def gen(self, rng, tier, i):
        raise NotImplementedError

    def monitors(self, case):
        return []

    def prepare(self, world, case):
        pass

    def judge(self, w, case):
        return []

    def nontrivial(self, w, case):
        return bool(sum(w.decider.counts.values())) and bool(w.delivs)

    def sample(self, w, case):
        plan = case["plan"]
        return {"seed": case.get("seed"), "cfg": {k: v for k, v in case["cfg"].items() if k not in ("clients",)},
                "n_clients": len(case["cfg"]["clients"]), "plan_len": len(plan),
                "plan_head": [{k: v for k, v in op.items() if k != "payload"} for op in plan[:8]],
                "faults": dict(w.decider.counts), "wire": w.net.nwire, "sends": len(w.sends), "delivered": len(w.delivs),
                "outcome": "violation" if w.violations else "pass"}

    # -- execution
    def execute(self, case):
        mons = list(self.monitors(case))
        if self.keep_states:
            mons.append(StateSampler())
        w = World(case["cfg"], case["plan"], fates=case.get("fates"), monitors=mons, keep_log=case.get("keep_log", 0))
        self.prepare(w, case)
        w.run()
        extra = self.judge(w, case) or []
        vs = []
        seen = set()
        for v in list(w.violations) + list(extra):
            v.setdefault("key", "")
            s = (v["kind"], v["key"])
            if s in seen:
                continue
            seen.add(s)
            vs.append(v)
        for name, typ, msg in w.thread_exits:
            if typ != "SimAbort":
                w.probes["thread_died_" + typ] += 1
        res = {
            "seed": case.get("seed"), "violations": vs, "digest": w.k.digest(),
            "nontrivial": self.nontrivial(w, case), "class": w.k.digest(),
            "faults": dict(w.decider.counts), "probes": dict(w.probes), "sim_s": round(w.k.now, 3),
            "events": w.k.nevents, "states": list(w.abstract_states), "taken": w.decider.taken,
            "injections": dict(getattr(w, "injections", {})), "vacuous": getattr(w, "vacuous", False),
            "thread_exits": w.thread_exits, "nexc": len(w.excs), "maxima": dict(getattr(w, "maxima", {})),
        }
        if case.get("want_sample", True):
            res["sample"] = self.sample(w, case)
        if case.get("debug"):
            res["world"] = w
        return res

    # -- shrinking
    def pin_fates(self, case, result):
        c = json.loads(json.dumps(case))
        c["fates"] = {k: [[d, list(m) if m else None] for d, m in f] for k, f in result["taken"].items()}
        return c

    def shrinkable(self, case):
        out = [("plan", lambda c: c["plan"], lambda c, v: c.__setitem__("plan", v))]
        if case.get("fates"):
            out.append(("fates", lambda c: sorted(c["fates"].items()),
                        lambda c, v: c.__setitem__("fates", dict(v))))
        return out

    def trim(self, case, result, target):
        """Cut the run short: end it shortly after the (run-time) violation, drop later plan directives."""
        ts = [v.get("t") for v in result["violations"] if "%s|%s" % (v["kind"], v.get("key", "")) == target and v.get("t") is not None]
        if not ts:
            return None
        end = min(ts) + 0.5
        if end >= case["cfg"].get("duration", 0) - 0.5:
            return None
        case["cfg"]["duration"] = round(end, 3)
        case["plan"] = [op for op in case["plan"] if op["t"] <= end]
        return case


def gen_traffic(rng, i, tier, *, nclients=None, retries=(0, 1, -1), n_msgs=None, cb_p=0.7, big=None,
                fault=True, server_sends=True, entry=None, heavy=False, long_latency=True, settle=None, rtt_safe=True,
                client_apis=("send", "send", "send_guaranteed", "send_default")):
    """One traffic case: connect, fault phase with sends inside it, heal, quiet settle period."""
    cfg = swarm_cfg(rng, nclients=nclients, entry=entry, long_latency=long_latency)
    n = len(cfg["clients"])
    mtu = cfg["mtu"]
    plan = []
    for c in range(n):
        op = {"op": "connect", "c": c, "t": 0.05 * c + rng.random() * 0.2}
        if rng.random() < 0.25:
            # the application sends from inside its connect callback: the messages share a datagram with the
            # challenge response, which the server still handles on its handshake path
            op["on_connect"] = [{"len": rng.choice([0, 9, 40, 700, limits(mtu)["cap1"], 3000]), "retry": rng.choice(retries),
                                 "cb": rng.random() < cb_p, "api": "send", "kind": 0, "on_connect": True} for _ in range(rng.choice([1, 2, 3]))]
        plan.append(op)
    t_start = 0.8 + 4 * cfg["latency"] + 2 * cfg["jitter"] + 3 * max(cl["dt"] for cl in cfg["clients"])
    t_fault0 = t_start + rng.random() * 1.0
    t_fault1 = t_fault0 + rng.choice([1.0, 2.0, 4.0, 8.0])
    if fault:
        cfg["phases"] = fault_phase(rng, t_fault0, t_fault1, heavy=heavy)
        if rng.random() < 0.15:
            # duplication (never loss: the handshake is not loss tolerant by design) already during the handshake
            cfg["phases"].append({"t0": 0.0, "t1": t_start, "dup": rng.choice([0.2, 0.5]), "dup_delay": rng.choice([0.0, 0.02, 0.2])})
    m = n_msgs or rng.choice([3, 6, 12, 25, 60])
    big = big or (200000 if tier == "thorough" else 40000)
    rtt0 = 2 * (cfg["latency"] + cfg["jitter"]) + 2 * cfg["reactor_lag"] + 2 * max(cfg["server"]["interval"], 1 / 60)
    burst_t = None
    cb_raise_run = rng.random() < 0.25       # in a quarter of the runs some application send callbacks raise
    # offered load stays within what the sender can put on the wire in ~2 s (one datagram per tick):
    # an overloaded sender is an application problem, not a fault the properties quantify over
    frag = limits(mtu)["frag"]
    budget = {"S%d" % c: 2.0 * frag / max(cfg["server"]["interval"], 1 / 60) for c in range(n)}
    for c in range(n):
        budget["c%d" % c] = 2.0 * frag / max(cfg["clients"][c]["dt"], 1 / 60)
    for j in range(m):
        if burst_t is not None and rng.random() < 0.6:
            t = burst_t                      # several messages in the same frame
        else:
            t = t_start + rng.random() * (t_fault1 - t_start)
            burst_t = t
        length = pick_len(rng, mtu, i, j, big=big)
        retry = rng.choice(retries)
        op = {"t": round(t, 4), "len": length, "kind": rng.choice([0, 0, 0, 1, 2, 3, 4]), "retry": retry,
              "cb": rng.random() < cb_p}
        if op["cb"] and cb_raise_run and rng.random() < 0.4:
            op["cb_raises"] = rng.choice(["always", "on_false", "on_true"])
        c = rng.randrange(n)
        op["c"] = c
        is_server = server_sends and rng.random() < 0.4
        who = ("S%d" if is_server else "c%d") % c
        # a message sent with a retry mode is re-sent every 0.1 s until its ack arrives: it costs ~RTT/0.1 copies
        factor = (1 + int(rtt0 / 0.1)) if retry != 0 else 1
        if length * factor > budget[who]:
            cap = int(budget[who] / factor)
            length = op["len"] = rng.randrange(0, min(limits(mtu)["cap1"], max(cap, 1)) + 1) if cap > 64 else rng.randrange(0, 64)
        budget[who] -= length * factor
        if is_server:
            op["op"] = "ssend"
            op["api"] = "send_guaranteed" if retry == -1 and rng.random() < 0.5 else "send"
        else:
            op["op"] = "send"
            api = rng.choice(client_apis)
            if api == "send_guaranteed":
                op["retry"] = -1
            elif api == "send_default":
                op["retry"] = -1
            op["api"] = api
        plan.append(op)
    rtt = 2 * (cfg["latency"] + cfg["jitter"]) + 2 * cfg["reactor_lag"]
    tick = max([cfg["server"]["interval"]] + [cl["dt"] for cl in cfg["clients"]])
    # liveness oracles assume what a deployment must configure anyway: message timeout > worst RTT
    # (with RTT >= timeout every datagram is declared lost before its ack can arrive and the
    # retry modes retransmit forever).  Longer timeouts are set through the public setters.
    mt = 1.0
    need = 1.5 * (rtt + 3 * tick) + 0.15
    if rtt_safe and need > mt:
        mt = 2.0 if need <= 2.0 else 3.0
    elif rng.random() < 0.15:
        mt = rng.choice([0.5, 2.0]) if need <= 0.5 else 2.0
    if mt != 1.0:
        cfg["server"]["msg_timeout"] = mt
        for cl in cfg["clients"]:
            cl["msg_timeout"] = mt
    cfg["msg_timeout"] = mt
    if settle is None:
        settle = 6 * (mt + rtt + 0.1 + 2 * tick) + 4.0
    cfg["duration"] = round(t_fault1 + settle, 3)
    cfg["t_heal"] = t_fault1
    return {"cfg": cfg, "plan": plan}


class FragExpiryProbe(Monitor):
    """Notices when a receiver throws away an *incomplete* fragment context (FragmentReceiver expiry).

    Used to attribute 'guaranteed message never delivered' / 'True callback without delivery' to that
    specific history, so that the known finding about it does not hide other causes.  The probe keeps
    its own record of when each context last made progress (stored a new fragment), so that
    'purged while idle longer than 1+0.5*count s' (known finding KF-FRAG-PURGE) and 'purged although it
    made progress more recently than that' (the defect repaired by bd9dabe) are told apart without
    trusting the repository's own timestamp."""

    def attach(self, world):
        self.w = world
        self.purged = []        # (t, receiving conn name, frag_id, fragments held, frag_count, idle_s, how)
        self.progress = {}      # (conn name, frag_id) -> virtual time of the last newly stored fragment
        CB = conn_mod.ConnectionBase
        orig = CB._recvAppFragment
        mon = self

        def filled(v):
            return frozenset(i for i, f in enumerate(v.fragments, 1) if f is not None)

        mon.done = {}           # conn name -> fragment ids this probe saw completing (its own record, not the repository's)

        def pre(conn, fragment):
            cn = world.conn_name(conn)
            before = {k: (filled(v), v.frag_count) for k, v in conn.received_fragments.items()}
            fid = idx = cnt = None
            if len(fragment) >= 6:
                fid, idx, cnt = struct.unpack(">HHH", fragment[:6])
            return cn, before, fid, idx, cnt, world.k.now

        def post(conn, state):
            cn, before, fid, idx, cnt, now = state
            after = conn.received_fragments
            if fid is not None:
                f0, c0 = before.get(fid, (frozenset(), cnt))
                f1 = f0 | ({idx} if 1 <= idx <= (c0 or 0) else set())
                if fid in after:
                    if len(filled(after[fid])) > len(f0):
                        mon.progress[(cn, fid)] = now
                elif fid not in before and fid in mon.done.get(cn, ()):
                    pass        # a late copy of a fragment of an already delivered message: ignored, no context existed
                else:
                    complete = len(f1) >= (c0 or 0)
                    if complete:
                        mon.done.setdefault(cn, set()).add(fid)
                    else:
                        # context gone although fragments are still missing: purged right after this fragment
                        last = mon.progress.get((cn, fid))
                        idle = now - last if last is not None else (0.0 if fid not in before else 1e9)
                        # a fragment that ADVANCES the message restarts its timer first (bd9dabe): if such a fragment
                        # nevertheless purges its own context, that is not the known idle-purge finding
                        mon._purge(world, cn, fid, len(f1), c0, idle, "own-new-fragment" if len(f1) > len(f0) else "own")
                    mon.progress.pop((cn, fid), None)
            for k, (f, c) in before.items():
                if k != fid and k not in after:
                    last = mon.progress.pop((cn, k), None)
                    mon._purge(world, cn, k, len(f), c, now - last if last is not None else 1e9, "other")

        def _recvAppFragment(conn, msgseq, fragment):
            # (probe code runs inside the repository's call chain: its own failures must surface as harness errors,
            # never as an exception the repository swallows - which would lose the rest of the datagram)
            state = world._guard(pre, conn, fragment)
            r = orig(conn, msgseq, fragment)
            if state is not None:
                world._guard(post, conn, state)
            return r
        world.seams._set(CB, "_recvAppFragment", _recvAppFragment)

    def _purge(self, world, cn, fid, h, c, idle, by):
        max_age = 1.0 + 0.5 * (c or 0)
        how = "idle" if idle > max_age * 0.99 else "while-progressing"
        self.purged.append((world.k.now, cn, fid, h, c, idle, how + ":by-" + by))
        world.probe("incomplete_fragment_context_purged_" + how)

    def cause(self, w, rec, rx_conn_name):
        """Attribute a lost fragmented message to the purge of *its own* reassembly context, or not."""
        fid = rec.get("frag_id")
        if fid is None:
            return "cause=unknown", []
        mine = [p for p in self.purged if p[1] == rx_conn_name and p[2] == fid and p[0] >= rec["t"]]
        if not mine:
            return "cause=unknown", []
        how = "idle" if all(p[6].startswith("idle") for p in mine) else "while-progressing"
        if any(p[6].endswith("own-new-fragment") for p in mine):
            how = "by-its-own-advancing-fragment"
        return "cause=receiver-purged-incomplete-fragment-context:" + how, \
            [(round(p[0], 3), p[2], p[3], p[4], round(p[5], 3), p[6]) for p in mine[:4]]


class PoolGuard(Monitor):
    """Server pools: the connection object (hence key and token) bound to an address that is in the middle of a
    handshake may only change by promotion, by its own timeout, or after a disconnect - never because some other
    (unauthenticated or duplicated) datagram arrived."""

    def attach(self, world):
        self.w = world
        self.prev_temp = {}

    def on_tick(self):
        w = self.w
        cur = dict(w.ctxt.temp_connections)
        for addr, old in self.prev_temp.items():
            new = cur.get(addr)
            if new is old or not old.session_key_bytes:
                continue
            promoted = w.ctxt.connections.get(addr) is old
            age = old.clock() - old.last_recv_time
            timed_out = age >= (w.ctxt.temp_connection_timeout or 2.0) * 0.95
            if not promoted and not timed_out and old.status.value != ConnectionStatus.DISCONNECTED.value:
                w.violation("keyed_pending_connection_replaced_without_authentication",
                            {"addr": addr, "age_of_old": round(age, 4), "replaced_by_new_object": new is not None},
                            key="replaced" if new is not None else "removed")
        self.prev_temp = cur
        # ... and an established connection leaves the connected pool only for a cause: its status says it is being
        # closed (peer DISCONNECT, application disconnect), it was silent for the connection timeout, or the server
        # stops - never because an unauthenticated datagram arrived from its address
        curc = dict(w.ctxt.connections)
        for addr, old in getattr(self, "prev_conn", {}).items():
            if curc.get(addr) is old:
                continue
            age = old.clock() - old.last_recv_time
            T = w.ctxt.connection_timeout or 5.0
            closing = old.status.value in (ConnectionStatus.DISCONNECTED.value, ConnectionStatus.DISCONNECTING.value)
            stopping = w.shutdown_t is not None or w.stopped
            if not closing and not stopping and age < T * 0.95:
                w.violation("established_connection_removed_without_cause",
                            {"addr": addr, "silent_for": round(age, 4), "T": T, "status": old.status.name(),
                             "replaced_by_new_object": addr in curc or addr in w.ctxt.temp_connections},
                            key="replaced" if (addr in curc or addr in w.ctxt.temp_connections) else "removed")
        self.prev_conn = curc


class QueueConservation(Monitor):
    """Hand-over between the receive thread and the loop thread: every datagram of an established client that
    append() put into the queue reaches that client's connection (_recv_datagram) within a few ticks - nothing
    is lost, and nothing is processed twice, between the socket and the loop, whatever the interleaving."""
    wants_recv = True

    def attach(self, world):
        self.w = world
        self.appended = collections.defaultdict(list)     # addr -> [t]
        self.received = collections.defaultdict(list)     # addr -> [t]
        UST = server_mod.UdpServerThread
        orig = UST.append
        mon = self

        def append(th, addr, hdr, datagram):
            mon.appended[tuple(addr)].append(world.k.now)
            return orig(th, addr, hdr, datagram)
        world.seams._set(UST, "append", append)

    def pre_recv(self, conn, hdr, datagram):
        if conn.isServer:
            self.received[tuple(conn.addr)].append(self.w.k.now)
        return None

    def judge(self, w, margin):
        vs = []
        for cn in w.clients:
            evs = [(e[0], e[1]) for e in w.hev if e[1] in ("connect", "disconnect") and e[4] is not None
                   and tuple(e[4][0] if e[1] == "connect" else e[4]) == cn.addr]
            if len(evs) != 1 or evs[0][1] != "connect" or cn.inc != 1:
                continue                    # only clients that connected once and stayed
            t0 = evs[0][0] + margin
            t1 = min(w.k.now, w.shutdown_t if w.shutdown_t is not None else w.k.now) - 2 * margin
            if t1 <= t0:
                continue
            a = sum(1 for t in self.appended.get(cn.addr, ()) if t0 <= t <= t1)
            r = sum(1 for t in self.received.get(cn.addr, ()) if t0 <= t <= t1 + margin)
            r_strict = sum(1 for t in self.received.get(cn.addr, ()) if t0 + margin <= t <= t1)
            if r < a:
                vs.append({"kind": "datagram_lost_between_receive_thread_and_loop", "key": w.cfg["entry"],
                           "detail": {"client": cn.name, "appended": a, "reached_the_connection": r}})
            elif r_strict > a + sum(1 for t in self.appended.get(cn.addr, ()) if t0 - margin <= t < t0) + 2:
                vs.append({"kind": "datagram_processed_more_than_once_by_the_loop", "key": w.cfg["entry"],
                           "detail": {"client": cn.name, "appended": a, "reached_the_connection": r_strict}})
        return vs
