"""
C12 - a connect attempt that timed out (callback(False), DISCONNECTED) comes
back to life when the SERVER_HELLO arrives late.

ClientServerConnection.update() gives up after temp_connection_timeout: it
sets DISCONNECTED, forgets time_client_hello_sent and calls the connect
callback with False.  But the connection object stays armed:
_recv_datagram()/_recvServerHello() accept the (only) SERVER_HELLO in *any*
state.  UdpClient.update() keeps polling the socket, so when the answer of
the server needs longer than the configured handshake timeout (here: timeout
0.25s, reply delayed by 0.4s) the application first gets callback(False) and
150ms later callback(True); the UdpClient is CONNECTED, the CHALLENGE_RESP is
sent and the server raises the connect event for a client whose application
was told that the attempt failed.

Real classes: UdpClient (mock socket, select patched), UdpServerThread.run()
driven single threaded, injected clocks anchored at time.time().

run: PYTHONPATH=/tmp/aud2/E /venv/bin/python d3_demo.py
"""
import sys, logging
import time as real_time

import mpgameserver.server as srv
import mpgameserver.connection as conn
import mpgameserver.client as cli
from mpgameserver import ServerContext, EventHandler
from mpgameserver.client import UdpClient
from mpgameserver.connection import PacketHeader, ConnectionStatus
from mpgameserver.server import UdpServerThread

logging.disable(logging.CRITICAL)

HANDSHAKE_TIMEOUT = 0.25   # UdpClient.setConnectionTimeout
REPLY_DELAY = 0.40         # one way delay server -> client
FRAME = 1 / 60

class Clock(object):
    def __init__(self):
        self.now = real_time.time()
        self.hook = None
    def time(self): return self.now
    def monotonic(self): return self.now
    def perf_counter(self): return self.now
    def sleep(self, d):
        if d > 0:
            target = self.now + d
            if self.hook:
                self.hook(target)
            self.now = target

CLK = Clock()
START = CLK.now
srv.time = CLK
conn.time = CLK     # ConnectionBase.clock = time.time
def T(): return round(CLK.now - START, 3)

class ClientSocket(object):
    """ socket of the UdpClient """
    def __init__(self, world):
        self.world = world
        self.inbox = []
    def sendto(self, datagram, addr):
        # client -> server: no delay. the entry point of _UdpServer.run
        hdr = PacketHeader.from_bytes(True, datagram)
        self.world.thread.queue.append((self.world.client_addr, hdr, datagram))
    def recvfrom(self, n):
        return self.inbox.pop(0), ("server", 1)
    def close(self): pass

class FakeSelect(object):
    @staticmethod
    def select(r, w, x, timeout):
        return [s for s in r if s.inbox], list(w), []
cli.select = FakeSelect

class FakeCond(object):
    def __init__(self, world): self.world = world
    def __enter__(self): return self
    def __exit__(self, *a): return False
    def notify_all(self): pass
    def wait(self, timeout=None):
        # nothing pooled, nothing queued: let time pass (the client keeps running)
        CLK.sleep(FRAME)
        if T() > 3.0:
            self.world.ctxt.shutdown()

class World(EventHandler):
    def __init__(self):
        self.ctxt = ServerContext(self)
        self.thread = UdpServerThread(self, self.ctxt)  # self is the server socket
        self.thread.lk_queue = self.thread.cv_queue = FakeCond(self)
        self.client_addr = ("10.0.0.1", 1000)
        self.in_flight = []     # (arrival time, datagram) server -> client
        self.server_events = []
        self.callbacks = []
        self.history = []

        self.client = UdpClient()
        self.client._make_socket = lambda addr: ClientSocket(self)
        self.client.setConnectionTimeout(HANDSHAKE_TIMEOUT)
        self.client.connect(("server", 1), callback=self.on_connect)
        self.client_next = CLK.now
        CLK.hook = self.client_frames

    def on_connect(self, success):
        self.callbacks.append((T(), success))

    # server socket
    def sendto(self, datagram, addr):
        self.in_flight.append((CLK.now + REPLY_DELAY, datagram))

    def client_frames(self, target):
        while self.client_next <= target:
            CLK.now = max(CLK.now, self.client_next)
            self.client_next += FRAME
            while self.in_flight and self.in_flight[0][0] <= CLK.now:
                self.client.sock.inbox.append(self.in_flight.pop(0)[1])
            self.client.update()
            st = self.client.status()
            if not self.history or self.history[-1][1] != st:
                self.history.append((T(), st))

    def connect(self, client):
        self.server_events.append((T(), "connect"))
    def disconnect(self, client):
        self.server_events.append((T(), "disconnect"))
    def update(self, delta_t):
        if T() > 3.0:
            self.ctxt.shutdown()

w = World()
w.client_frames(CLK.now)
w.thread.run()

print("handshake timeout %.2fs, the SERVER_HELLO needs %.2fs to reach the client" % (HANDSHAKE_TIMEOUT, REPLY_DELAY))
print("connect callback calls  :", w.callbacks)
print("UdpClient.status()      :", w.history)
print("server handler events   :", w.server_events)

failures = []
if [ok for t, ok in w.callbacks] != [False]:
    failures.append("the connect callback was called %r, expected once with False" % ([ok for t, ok in w.callbacks],))
after = [st for t, st in w.history if t > HANDSHAKE_TIMEOUT + 2 * FRAME]
if any(st != ConnectionStatus.DISCONNECTED for st in after):
    failures.append("the attempt did not end DISCONNECTED: %r" % (after,))
if any(e[1] == "connect" for e in w.server_events):
    failures.append("the server raised connect for the attempt that the client application saw fail")
for f in failures:
    print("VIOLATION:", f)
sys.exit(1 if failures else 0)
