"""
C11 - a block-listed IPv4 address is served normally when the server is bound
to "::" (the documented way to listen on IPv6: "host can be '::' to bind to an
ipv6 address").

TwistedServer.datagramReceived compares the *text* of the peer address with
the entries of the block list:   if addr[0] in self.ctxt.blocklist: return
An AF_INET6 socket bound to "::" is dual stack; the datagrams of an IPv4 peer
a.b.c.d are reported by the socket / twisted as "::ffff:a.b.c.d". The entry
"a.b.c.d" never matches, so datagrams from a block-listed IP address are parsed,
queued, processed by the server thread and answered with a SERVER_HELLO.

Part 1 is end to end over the loopback interface (real TwistedServer / reactor,
real sockets). Part 2 calls the datagram entry point directly and needs no
network at all.

run: PYTHONPATH=/tmp/aud/E /venv/bin/python d3_demo.py
"""
import socket
import time
import logging

from mpgameserver.context import ServerContext
from mpgameserver.handler import EventHandler
from mpgameserver.twisted import TwistedServer, ThreadedServer
from mpgameserver.connection import ClientServerConnection, PacketHeader

logging.disable(logging.CRITICAL)

def make_hello():
    conn = ClientServerConnection(("server", 1))
    conn._sendClientHello()
    return conn._encode_packet(conn._build_packet())

problems = []

# ---------------------------------------------------------------------------
# part 1: end to end. 127.0.0.1 is block listed, the server listens on "::"
PORT = 14911
ctxt = ServerContext(EventHandler())
ctxt.setBlockList({"127.0.0.1"})
server = None
try:
    probe = socket.socket(socket.AF_INET6, socket.SOCK_DGRAM)
    probe.bind(("::", PORT))
    probe.close()
    have_ipv6 = True
except OSError as e:
    print("part 1 skipped, no usable ipv6 stack: %s" % e)
    have_ipv6 = False

if have_ipv6:
    server = ThreadedServer(ctxt, ("::", PORT))
    server.start()
    time.sleep(.5)
    try:
        sock = socket.socket(socket.AF_INET, socket.SOCK_DGRAM)
        sock.bind(("127.0.0.1", 0))
        sock.settimeout(2.0)
        hello = make_hello()
        sock.sendto(hello, ("127.0.0.1", PORT))
        try:
            reply, _ = sock.recvfrom(4096)
        except socket.timeout:
            reply = b""
        print("block list            : %r" % ctxt.blocklist)
        print("datagram sent from    : %s:%d" % sock.getsockname())
        print("server sees peers     : %r" % list(ctxt.temp_connections.keys()))
        print("server replied with   : %d bytes" % len(reply))
        if reply or ctxt.temp_connections:
            problems.append("end to end: a hello from block-listed 127.0.0.1 was processed and answered with %d bytes" % len(reply))
        sock.close()
    finally:
        server.stop()

# ---------------------------------------------------------------------------
# part 2: the datagram entry point, no network
ctxt2 = ServerContext(EventHandler())
ctxt2.setBlockList({"192.0.2.55"})
srv2 = TwistedServer(ctxt2, ("::", PORT + 1), install_signals=False)

hello = make_hello()
# control: the plain spelling is discarded before any processing
srv2.datagramReceived(hello, ("192.0.2.55", 4000))
assert srv2.thread.queue == [], "control failed"
# the spelling that a dual stack socket reports for the very same IP address
srv2.datagramReceived(hello, ("::ffff:192.0.2.55", 4000))
print("queued for processing : %r" % [a for a, h, d in srv2.thread.queue])
if srv2.thread.queue:
    problems.append("entry point: datagram from block-listed 192.0.2.55 (reported as ::ffff:192.0.2.55) was parsed and queued")

assert not problems, "\n".join(problems)
print("ok")
