"""
d2 (C04): a fragmented message is delivered twice when its fragments are
retransmitted after 256 other fragmented messages have completed.

The receiver remembers completed fragmented messages in the list
ConnectionBase.completed_fragments, which _recvAppFragment() truncates to the 256
most recent ids. A fragment that is resent after a timeout travels with a NEW
message sequence number (FragmentSender.callback -> _send_type), so the message
level duplicate filter does not apply: completed_fragments is the only thing that
stops the resent fragments from being reassembled a second time.

Scenario (bulk transfer): the client queues 300 blocks of 2048 bytes with
RetryMode.RETRY_ON_TIMEOUT (2 fragments each, ~10 seconds of traffic at one
datagram per frame). The datagrams from the server to the client are lost for
the first 0.7 seconds, so the acks for the first few blocks never arrive. After
the 1 second ack timeout their fragments are queued again - behind the rest of
the transfer. When they are finally sent the server has completed more than 256
other blocks, has forgotten the ids of the first ones, and reassembles and
delivers them a second time.

run: PYTHONPATH=/tmp/aud/B /venv/bin/python d2_demo.py
"""
import sys, time, heapq, itertools, struct, collections
import mpgameserver.connection as C
from mpgameserver.connection import (ClientServerConnection, ServerClientConnection,
    PacketHeader, ConnectionStatus, RetryMode)
from mpgameserver.context import ServerContext
from mpgameserver.handler import EventHandler


class Sim(object):
    """A real ClientServerConnection and a real ServerClientConnection, driven the
    way UdpClient.update() / UdpServerThread.run() drive them, with one fake clock
    (anchored at time.time()) and a scriptable network in between.

    policy(src, pkt, t) -> list of one-way delays for the datagram just emitted by
    `src` ("client"/"server"); [] = lost, two entries = duplicated.
    """
    TICK = 1/60 + 1e-6

    def __init__(self):
        self.t = time.time()
        sim = self
        # FragmentReceiver.expired() reads time.time() directly
        C.time = type("FakeTime", (), {"time": staticmethod(lambda: sim.t)})
        self.ctxt = ServerContext(EventHandler(), None)
        self.client = ClientServerConnection(("10.0.0.1", 4000))
        self.server = ServerClientConnection(self.ctxt, ("10.0.0.2", 5000))
        self.client.clock = self.server.clock = lambda: sim.t
        self.ctxt.temp_connections[self.server.addr] = self.server
        self.net, self.n = [], itertools.count()
        self.delivered = {"client": [], "server": []}   # what the application is handed
        self.policy = lambda src, pkt, t: [0.0]
        self.client._sendClientHello()
        for i in range(10):
            self.step()
        assert self.client.status == ConnectionStatus.CONNECTED
        assert self.server.status == ConnectionStatus.CONNECTED
        self.t0 = self.t

    def emit(self, src, pkt, datagram):
        dest = "server" if src == "client" else "client"
        for delay in self.policy(src, pkt, self.t):
            heapq.heappush(self.net, (self.t + delay, next(self.n), dest, datagram))

    def step(self):
        self.t += self.TICK
        while self.net and self.net[0][0] <= self.t:
            _, _, dest, d = heapq.heappop(self.net)
            conn = getattr(self, dest)
            conn._recv_datagram(PacketHeader.from_bytes(dest == "server", d), d)
            self.delivered[dest].extend(m for _, m in conn.incoming_messages)
            conn.incoming_messages = []
        # client: same calls as UdpClient.update()
        self.client.update()
        if self.t - self.client.last_send_time > self.client.send_interval:
            pkt = self.client._build_packet()
            if pkt is not None:
                self.emit("client", pkt, self.client._encode_packet(pkt))
            self.client._check_timeout(self.t)
        # server: same calls as UdpServerThread.run()/send()
        r = self.server.update()
        if r:
            pkt, key, addr = r
            self.emit("server", pkt, pkt.to_bytes(key))

def main():
    sim = Sim()
    # server -> client datagrams are lost during the first 0.7 seconds,
    # everything else arrives after 10ms. nothing is duplicated or reordered.
    sim.policy = lambda src, pkt, t: [] if (src == "server" and t - sim.t0 < 0.7) else [0.010]

    N = 300
    for i in range(N):
        block = struct.pack(">L", i) + bytes(2044)
        sim.client.send(block, retry=RetryMode.RETRY_ON_TIMEOUT)

    for i in range(60 * 20):
        sim.step()

    assert sim.client.status == ConnectionStatus.CONNECTED
    assert sim.server.status == ConnectionStatus.CONNECTED

    counts = collections.Counter(struct.unpack(">L", m[:4])[0] for m in sim.delivered["server"])
    twice = sorted(k for k, v in counts.items() if v > 1)
    print("blocks delivered: %d distinct, %d deliveries; delivered more than once: %s" % (
        len(counts), sum(counts.values()), twice))
    assert len(counts) == N
    assert not twice, "C04 violated: blocks %s were handed to the application more than once" % twice

if __name__ == '__main__':
    main()
