#!/venv/bin/python
"""
C12 - an idle connection over a working network is reported DROPPED by the client

A real UdpClient talks to real ServerClientConnection objects (the body of
UdpServerThread.run is mirrored by MiniServer.step) over an in-memory network
with a fake clock. The network never loses or delays anything and the server
never stops sending its keep alives. The server is configured (before it
starts) with ServerContext.setConnectionTimeout(30).

The application does not call UdpClient.update() for 6 seconds (level load,
window drag, debugger, suspended laptop...). When it resumes, ~50 keep alive
datagrams of the server are waiting in the socket. UdpClient.update() runs the
"nothing received for 5 s" test BEFORE it reads the socket, declares the
connection DROPPED and then never reads the socket again.

expected: the client is still CONNECTED after the stall (the peer was never
          silent) and the link stays up on both sides
actual:   ConnectionStatus.DROPPED (and, because a DROPPED client stops
          sending, the server loses the client as well)

exit status 0 = behaves as the property says, 1 = violation
"""
import os, sys, heapq, itertools, logging
sys.path.insert(0, os.path.join(os.path.dirname(os.path.abspath(__file__)), ".."))
logging.disable(logging.CRITICAL)

import mpgameserver.connection as connection
import mpgameserver.client as client_mod
from mpgameserver.client import UdpClient
from mpgameserver.context import ServerContext
from mpgameserver.handler import EventHandler
from mpgameserver.connection import ServerClientConnection, PacketHeader, \
    PacketType, ConnectionStatus

# ---------------------------------------------------------------- fake time
class FakeTime(object):
    def __init__(self): self.now = 1000.0
    def time(self): return self.now
    def monotonic(self): return self.now
    def sleep(self, d): self.now += d
T = FakeTime()
connection.time = T     # ConnectionBase.clock = time.time, FragmentReceiver
client_mod.time = T     # waitForDisconnect sleep

# ------------------------------------------------------------- fake network
class Net(object):
    """ lossless network with a constant one way latency """
    def __init__(self, latency=0.0):
        self.latency = latency; self.q = []; self.n = itertools.count()
        self.endpoints = {}
    def send(self, src, dst, datagram):
        heapq.heappush(self.q, (T.now + self.latency, next(self.n), src, dst, datagram))
    def pump(self):
        while self.q and self.q[0][0] <= T.now:
            _, _, src, dst, datagram = heapq.heappop(self.q)
            self.endpoints[dst](src, datagram)

class FakeSocket(object):
    def __init__(self, net, addr):
        self.net = net; self.addr = addr; self.inbox = []
        net.endpoints[addr] = lambda src, dg: self.inbox.append((dg, src))
    def sendto(self, datagram, addr): self.net.send(self.addr, addr, datagram)
    def recvfrom(self, n): return self.inbox.pop(0)
    def close(self): pass

class FakeSelect(object):
    @staticmethod
    def select(r, w, x, timeout=None):
        return [s for s in r if s.inbox], list(w), []
client_mod.select = FakeSelect

# -------------------------------------------------- server (UdpServerThread)
class MiniServer(object):
    ADDR = ("10.0.0.1", 1474)
    def __init__(self, net, ctxt):
        self.net = net; self.ctxt = ctxt; self.queue = []
        net.endpoints[self.ADDR] = self.recv
    def recv(self, addr, datagram):             # _UdpServer.run
        try:
            hdr = PacketHeader.from_bytes(True, datagram)
        except Exception:
            return
        self.queue.append((addr, hdr, datagram))
    def step(self):                             # one pass of UdpServerThread.run
        ctxt = self.ctxt
        queue, self.queue = self.queue, []
        for addr, hdr, datagram in queue:
            if addr in ctxt.connections:
                c = ctxt.connections[addr]
                c._recv_datagram(hdr, datagram)
                for seqnum, msg in c.incoming_messages:
                    ctxt.handler.handle_message(c, seqnum, msg)
                c.incoming_messages = []
            elif addr in ctxt.temp_connections:
                if hdr.pkt_type == PacketType.CHALLENGE_RESP:
                    ctxt.temp_connections[addr]._recv_datagram(hdr, datagram)
            elif hdr.pkt_type == PacketType.CLIENT_HELLO:
                c = ServerClientConnection(ctxt, addr)
                c.send_keep_alive_interval = ctxt.keep_alive_interval
                c.outgoing_timeout = ctxt.outgoing_timeout
                ctxt.temp_connections[addr] = c
                c._recv_datagram(hdr, datagram)
        sending = []
        for c in list(ctxt.connections.values()):
            if c.status == ConnectionStatus.DISCONNECTING:
                c.disconnect()
            dead = c.status == ConnectionStatus.DISCONNECTED or c.timedout(ctxt.connection_timeout)
            if dead:
                ctxt.onDisconnect(c)
            msg = c.update()
            if msg is not None:
                sending.append(msg)
            if dead:
                del ctxt.connections[c.addr]
        for c in list(ctxt.temp_connections.values()):
            if c.status == ConnectionStatus.DISCONNECTED or c.timedout(ctxt.temp_connection_timeout):
                del ctxt.temp_connections[c.addr]
            else:
                msg = c.update()
                if msg is not None:
                    sending.append(msg)
        for pkt, key, addr in sending:
            self.net.send(self.ADDR, addr, pkt.to_bytes(key))

TICK = 1/60

def run(net, server, client, duration, client_runs=True):
    end = T.now + duration
    while T.now < end:
        net.pump(); server.step(); net.pump()
        if client_runs:
            client.update()
        T.now += TICK

def main():
    net = Net(latency=0.02)
    ctxt = ServerContext(EventHandler())
    ctxt.setConnectionTimeout(30.0)      # the server tolerates 30 s of silence
    server = MiniServer(net, ctxt)

    client = UdpClient()
    client._make_socket = lambda addr: FakeSocket(net, ("10.0.0.2", 40000))
    client.connect(MiniServer.ADDR)
    run(net, server, client, 0.5)
    assert client.connected() and len(ctxt.connections) == 1, "handshake failed"

    run(net, server, client, 20.0)       # idle, both sides only send keep alives
    assert client.connected() and len(ctxt.connections) == 1, "idle link went down"

    # the application is busy for 6 seconds. the server keeps sending.
    run(net, server, client, 6.0, client_runs=False)
    waiting = len(client.sock.inbox)
    assert len(ctxt.connections) == 1

    run(net, server, client, 1.0)        # the application is back
    status = client.status()
    print("datagrams of the server waiting in the socket after the stall: %d" % waiting)
    print("client status after the stall: %s" % status)
    print("server still has the client: %s" % (len(ctxt.connections) == 1))

    run(net, server, client, 40.0)
    print("40 s later: client %s, server has client: %s" % (
        client.status(), len(ctxt.connections) == 1))

    if status != ConnectionStatus.CONNECTED:
        print("FAIL: the peer was never silent (%d unread datagrams) but the "
              "client reports %s" % (waiting, status))
        return 1
    print("OK")
    return 0

if __name__ == '__main__':
    sys.exit(main())
