#! PYTHONPATH=/tmp/aud2/C /venv/bin/python d1_demo.py
"""
C07 (and the liveness half of C05's "only delay it"): UdpClient.update() takes
at most ONE datagram from its socket per call.

Scenario (pure delay schedule, no loss, no duplication, no reordering):

  * client (real UdpClient, mock socket, update() called once per frame as
    documented) and server side (real ServerClientConnection driven exactly
    like UdpServerThread.run drives it) run at the same frame rate.
  * the server application sends ONE guaranteed 600 kB message
    (send_guaranteed on the server side client object, ~590 fragments).
  * once, the network holds the server->client datagrams for 1.5 s and then
    delivers all of them together, in order (a delay burst). From then on the
    network is perfect in both directions: zero delay, zero loss.
  * a little later the client application sends one small guaranteed message.

Because the server sends one datagram per frame and the client reads one
datagram per frame, the ~88 datagrams of the burst are never worked off: the
client stays 1.5 s behind for ever. Every ack it processes (and every ack it
sends) is 1.5 s old, i.e. older than the 1 s message timeout. From the burst
on EVERY datagram of BOTH sides is resolved as "timed out" although every one
of them was delivered and acknowledged, the two guaranteed callbacks never
fire, and the server retransmits fragments of a message that was delivered
long ago for ever (this retransmission traffic is what keeps the backlog from
draining: the state is self sustaining).

The program fails (AssertionError) on the unchanged library.
"""
import sys
import random
import logging

import mpgameserver.connection as connection
import mpgameserver.client as client_module
from mpgameserver.connection import PacketHeader, PacketType, ConnectionStatus, \
    ServerClientConnection
from mpgameserver.context import ServerContext
from mpgameserver.handler import EventHandler
from mpgameserver.client import UdpClient

logging.disable(logging.CRITICAL)

FRAME = 0.017  # both sides run at ~59 frames per second


class FakeTime(object):
    """stands in for the time module inside mpgameserver.connection"""
    def __init__(self):
        self.t = 1000.0

    def time(self):
        return self.t


class MockSocket(object):
    def __init__(self):
        self.inbox = []   # datagrams waiting in the "kernel" receive buffer
        self.sent = []

    def sendto(self, datagram, addr):
        self.sent.append(datagram)

    def recvfrom(self, size):
        return self.inbox.pop(0), ('server', 1)

    def close(self):
        pass


class Handler(EventHandler):
    def __init__(self):
        self.clients = []
        self.received = []

    def connect(self, client):
        self.clients.append(client)

    def handle_message(self, client, seqnum, msg):
        self.received.append(msg)


ft = FakeTime()
connection.time = ft    # FragmentReceiver.expired() reads time.time()
sock = MockSocket()


class FakeSelect(object):
    @staticmethod
    def select(r, w, x, timeout):
        return ([sock] if sock.inbox else []), [sock], []


client_module.select = FakeSelect

handler = Handler()
ctxt = ServerContext(handler)
CADDR = ('client', 2)

client = UdpClient()
client._make_socket = lambda addr: sock

c2s = []   # (deliver_time, datagram)
s2c = []
hold_until = 0.0   # server->client datagrams sent before this time arrive at this time
client_received = []


def server_frame():
    """the body of UdpServerThread.run for one tick"""
    global c2s
    due = [d for t, d in c2s if t <= ft.t]
    c2s = [(t, d) for t, d in c2s if t > ft.t]
    for datagram in due:
        hdr = PacketHeader.from_bytes(True, datagram)
        if CADDR in ctxt.connections:
            conn = ctxt.connections[CADDR]
            conn._recv_datagram(hdr, datagram)
            for seqnum, msg in conn.incoming_messages:
                ctxt.handler.handle_message(conn, seqnum, msg)
            conn.incoming_messages = []
        elif CADDR in ctxt.temp_connections:
            if hdr.pkt_type != PacketType.CHALLENGE_RESP:
                continue
            ctxt.temp_connections[CADDR]._recv_datagram(hdr, datagram)
        else:
            if hdr.pkt_type != PacketType.CLIENT_HELLO:
                continue
            conn = ServerClientConnection(ctxt, CADDR)
            conn.clock = ft.time
            conn.send_keep_alive_interval = ctxt.keep_alive_interval
            conn.outgoing_timeout = ctxt.outgoing_timeout
            ctxt.temp_connections[CADDR] = conn
            conn._recv_datagram(hdr, datagram)
    for conn in list(ctxt.connections.values()) + list(ctxt.temp_connections.values()):
        assert not conn.timedout(ctxt.connection_timeout), "server timed the client out"
        out = conn.update()
        if out is not None:
            pkt, key, addr = out
            s2c.append((max(ft.t, hold_until), pkt.to_bytes(key)))


def client_frame():
    """one game frame: UdpClient.update() is called once"""
    global s2c
    sock.inbox.extend(d for t, d in s2c if t <= ft.t)
    s2c = [(t, d) for t, d in s2c if t > ft.t]
    client.update()
    client_received.extend(client.getMessages())
    c2s.extend((ft.t, d) for d in sock.sent)
    sock.sent = []


def run(seconds):
    for i in range(int(round(seconds / FRAME))):
        ft.t += FRAME
        client_frame()
        server_frame()


# ---------------------------------------------------------------------------
connected = []
client.connect(('server', 1), connected.append)
client.conn.clock = ft.time
run(0.5)
assert connected == [True] and handler.clients, "handshake failed"
server = handler.clients[0]

payload = random.Random(7).randbytes(600000)
server_cb = []
client_cb = []

t_start = ft.t
server.send_guaranteed(payload, callback=lambda ok: server_cb.append((ok, round(ft.t - t_start, 2))))
run(0.5)

# the one and only network fault: a delay burst of 1.5 s, server -> client
hold_until = ft.t + 1.5
run(1.5)
hold_until = 0.0
run(0.2)
print("datagrams waiting in the client socket after the burst:", len(sock.inbox))

client.send_guaranteed(b"hello", callback=lambda ok: client_cb.append((ok, round(ft.t - t_start, 2))))

# the network is perfect from here on. 600 kB need ~10 s at one datagram per
# frame; allow 60 s.
acked_before = (client.conn.stats.acked, server.stats.acked)
for sec in range(60):
    run(1.0)
    if server_cb and client_cb:
        break

print("simulated seconds since the send: %.1f" % (ft.t - t_start))
print("status:", client.conn.status, server.status)
print("big message delivered to the client application:",
      [m == payload for s, m in client_received])
print("small message delivered to the server application:", handler.received)
print("server side callback:", server_cb, " client side callback:", client_cb)
print("datagrams still waiting in the client socket:", len(sock.inbox))
print("client datagrams acked/timed out since the burst: %d / %d" % (
    client.conn.stats.acked - acked_before[0], client.conn.stats.timeouts))
print("server datagrams acked/timed out since the burst: %d / %d" % (
    server.stats.acked - acked_before[1], server.stats.timeouts))
print("server still retransmitting: %d queued + %d in the resend table" % (
    len(server.outgoing_messages), len(server.pending_retry_msg)))

assert client.conn.status == ConnectionStatus.CONNECTED
assert server.status == ConnectionStatus.CONNECTED
# C05: both messages were delivered ...
assert [m for s, m in client_received] == [payload]
assert handler.received == [b"hello"]
# C07: ... so, with the connection open and a healed network, each guaranteed
# callback has to fire exactly once with True
assert [ok for ok, t in server_cb] == [True], \
    "guaranteed send (server side) delivered %.0f s ago, callback: %r" % (ft.t - t_start, server_cb)
assert [ok for ok, t in client_cb] == [True], \
    "guaranteed send (client side) delivered, callback: %r" % (client_cb,)
print("OK")
