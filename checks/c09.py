"""C09 - wire codec round-trips; datagrams respect the MTU; packing never fails."""
import collections

from checks.common import UdpCheck, gen_traffic, limits, Monitor, swarm_cfg, pick_len
from checks.c05 import open_pairs
from world.udpworld import conn_mod, Packet, PacketHeader, ConnectionStatus, SERVER_ADDR
from world import refmodel as R


class CodecMonitor(Monitor):
    wants_build = True

    def attach(self, world):
        self.w = world
        self.expect = {}        # (src addr, seq) -> expectation recorded when the packet left _build_packet
        self.checked = 0
        self.max_count = 0
        self.max_len = 0
        self.tx = set()         # (conn name, msgseq) ever packed
        w = world
        world.net.taps.append(self.on_wire_raw)

    def pre_build(self, conn):
        return set(int(k) for k in conn.pending_retry_msg)

    def after_build(self, conn, pkt, pre=None):
        # a message waiting to be resent either stays in the resend table or leaves in this very packet
        if not pre:
            return
        now = set(int(k) for k in conn.pending_retry_msg)
        sent = set(int(m.seq) for m in pkt.msgs) if pkt is not None else set()
        lost = pre - now - sent
        if lost:
            self.w.violation("retry_message_dropped_from_resend_table_without_being_sent",
                             {"conn": self.w.conn_name(conn), "msgseqs": sorted(lost)[:5], "packet_built": pkt is not None,
                              "packed": len(sent)}, key="")

    def on_build(self, conn, pkt, pre=None):
        w = self.w
        room = limits(w.cfg["mtu"])["room"]
        cn = w.conn_name(conn)
        h = pkt.hdr
        msgs = [(int(m.seq), m.type.value, bytes(m.payload)) for m in pkt.msgs]
        for s, t, p in msgs:
            self.tx.add((cn, s))
        src = SERVER_ADDR if conn.isServer else self._client_addr(conn)
        dst = tuple(conn.addr) if conn.isServer else SERVER_ADDR
        self.expect[(src, dst, int(h.seq))] = {
            "key": conn.session_key_bytes, "type": h.pkt_type.value, "seq": int(h.seq), "ack": int(h.ack),
            "bits": h.ack_bits, "ctime": h.ctime, "count": len(msgs), "length": len(pkt.msg), "msgs": msgs, "conn": cn,
            "to_client": bool(conn.isServer), "t": w.k.now}
        self.max_count = max(self.max_count, len(msgs))
        if len(msgs) >= 200:
            w.probe("count_ge_200_in_one_datagram")
        # header fields describe the payload exactly
        if h.count != len(msgs) or h.length != len(pkt.msg) or len(pkt.msg) != R.payload_size([len(p) for _, _, p in msgs]):
            w.violation("header_length_or_count_wrong", {"count": h.count, "n": len(msgs), "length": h.length,
                                                         "payload": len(pkt.msg)})
        if len(msgs) > 255:
            w.violation("more_than_255_messages_packed", {"n": len(msgs)})
        # first-fit maximality: nothing left behind could still have been added
        left = conn.outgoing_messages
        if left and len(msgs) < 255:
            lens = [len(p) for _, _, p in msgs]
            for m in left:
                if R.payload_size(lens + [len(m.payload)]) <= room:
                    w.violation("message_left_behind_although_it_fits",
                                {"packed": len(msgs), "packed_bytes": R.payload_size(lens), "left_len": len(m.payload),
                                 "room": room, "mtu": w.cfg["mtu"]},)
                    break

    def _client_addr(self, conn):
        for cn in self.w.clients:
            if cn.client is not None and cn.client.conn is conn:
                return cn.addr
        for inc in self.w.incarnations:
            if inc["conn"] is conn:
                return self.w.clients[int(inc["name"][1:])].addr
        return None

    def on_wire_raw(self, wid, t, src, dst, data, fate):
        w = self.w
        mtu = w.cfg["mtu"]
        if len(data) > mtu - 28:
            w.violation("datagram_exceeds_mtu", {"len": len(data), "limit": mtu - 28, "mtu": mtu})
        if len(data) == mtu - 28:
            w.probe("datagram_exactly_MAX_SIZE")
        self.max_len = max(self.max_len, len(data))
        if len(data) < R.HDR:
            w.violation("runt_datagram_emitted", {"len": len(data)})
            return
        h = R.dec_header(data)
        e = self.expect.pop((src, dst, h["seq"]), None)
        if e is None:
            w.violation("datagram_on_wire_without_built_packet", {"seq": h["seq"], "type": h["type"]})
            return
        self.checked += 1
        encrypted = bool(e["key"]) and e["type"] != R.T_SERVER_HELLO
        body = R.open_gcm(e["key"], data) if encrypted else R.open_crc(data)
        if body is None:
            w.violation("reference_codec_cannot_open_datagram", {"encrypted": encrypted, "type": e["type"], "len": len(data)})
            return
        if len(data) != R.HDR + len(body) + (R.TAG if encrypted else R.CRC):
            w.violation("datagram_has_trailing_or_missing_bytes", {"len": len(data), "body": len(body)})
        got = (h["to_client"], h["type"], h["seq"], h["ack"], h["ack_bits"], h["ctime"], h["count"], h["length"])
        exp = (e["to_client"], e["type"], e["seq"], e["ack"], e["bits"], e["ctime"] & 0xFFFFFFFF, e["count"], e["length"])
        if got != exp:
            w.violation("header_fields_differ_from_built_packet", {"got": got, "exp": exp})
            return
        try:
            msgs = R.dec_payload(h, body)
        except Exception as ex:     # noqa
            w.violation("reference_decode_failed", {"err": str(ex), "count": h["count"]})
            return
        if [(s, t if h["count"] > 1 else e["msgs"][0][1], p) for s, t, p in msgs] != e["msgs"] or \
                (h["count"] == 1 and e["msgs"][0][1] != h["type"]):
            w.violation("decoded_messages_differ", {"count": h["count"], "type": h["type"]})
        # the repository's own decoder must agree as well
        try:
            hdr = PacketHeader.from_bytes(not e["to_client"], data)
            # the receiver of a SERVER_HELLO holds no key yet: decode as that receiver would
            pkt = Packet.from_bytes(hdr, e["key"] if encrypted else None, data)
            mine = [(int(m.seq), m.type.value, bytes(m.payload)) for m in pkt.msgs]
            if mine != e["msgs"] or hdr.count != e["count"] or hdr.length != e["length"] or int(hdr.ack) != e["ack"] \
                    or hdr.ack_bits != e["bits"] or int(hdr.seq) != e["seq"]:
                w.violation("from_bytes_to_bytes_roundtrip_differs", {"count": e["count"]})
        except Exception as ex:     # noqa
            w.violation("from_bytes_raised_on_own_datagram", {"err": "%s: %s" % (type(ex).__name__, ex)})


class C09(UdpCheck):
    pid = "C09"
    budget = {"quick": 70, "thorough": 800}
    ncases = {"quick": 900, "thorough": 40000}
    rule = ("case = swarm config (every MTU class) + send histories with empty payloads, bursts of up to 400 tiny messages in "
            "one frame, lengths around every capacity boundary, all retry modes so that resend and new messages share "
            "datagrams, both directions, light loss; every emitted datagram is decoded by an independent reference codec; "
            "non-trivial = a fault fired and a datagram with >= 2 messages was emitted; distinct = event-order digest")

    def gen(self, rng, tier, i):
        case = gen_traffic(rng, i, tier, retries=(0, 1, -1), cb_p=0.2, long_latency=False)
        cfg, plan = case["cfg"], case["plan"]
        n = len(cfg["clients"])
        t0 = min(op["t"] for op in plan if op["op"] in ("send", "ssend")) if any(op["op"] in ("send", "ssend") for op in plan) else 1.5
        # bursts of tiny messages in one frame
        for b in range(rng.choice([1, 2, 3])):
            t = round(t0 + rng.random() * 3.0, 4)
            cnt = rng.choice([5, 30, 120, 254, 255, 256, 257, 300, 400])
            ln = rng.choice([0, 0, 1, 2, 3, 7])
            who = rng.choice(["send", "ssend"])
            c = rng.randrange(n)
            retry = rng.choice([0, 0, 1, -1])
            exact = rng.random() < 0.5
            for j in range(cnt):
                plan.append({"op": who, "c": c, "t": t, "len": ln if exact or rng.random() < 0.9 else rng.randrange(0, 40),
                             "kind": 0, "retry": retry, "cb": False, "api": "send"})
        # mixed sizes queued together (packing boundaries)
        room = limits(cfg["mtu"])["room"]
        for b in range(rng.choice([1, 2, 4])):
            t = round(t0 + rng.random() * 3.0, 4)
            who = rng.choice(["send", "ssend"])
            c = rng.randrange(n)
            first = rng.randrange(0, room)
            rest = room - first
            for ln in (first, max(0, rest - rng.choice([2, 5, 7, 9, 10, 11, 12])), rng.choice([0, 1, 2, 3])):
                plan.append({"op": who, "c": c, "t": t, "len": ln, "kind": rng.choice([0, 2]), "retry": rng.choice([0, 1, -1]),
                             "cb": False, "api": "send"})
        return case

    def monitors(self, case):
        self.mon = CodecMonitor()
        return [self.mon]

    def nontrivial(self, w, case):
        return bool(sum(w.decider.counts.values())) and self.mon.max_count >= 2

    def judge(self, w, case):
        vs = []
        mon = self.mon
        mtu = case["cfg"]["mtu"]
        cap1 = limits(mtu)["cap1"]
        # exceptions out of the send half
        for e in w.excs:
            if e["where"] == "update":
                vs.append({"kind": "client_update_raised", "key": e["type"], "detail": e})
            elif e["where"].startswith("send") and e["op"].get("len", 0) <= 8 * 1024 * 1024:
                vs.append({"kind": "send_raised", "key": "%s:%s" % (e["where"], e["type"]), "detail": e})
        # every packet that left the builder (its messages are dequeued at that point) is handed to the socket: the client
        # does so in the same update() call; the server within the tick (plus reactor lag), unless a send error was injected
        plan_ops = set(op["op"] for op in case["plan"])
        for (src, dst, seq), e in mon.expect.items():
            if w.k.now - e["t"] < 1.0:
                continue
            if e["to_client"] and (w.sockerrs or "shutdown" in plan_ops or "hkick" in plan_ops):
                continue
            vs.append({"kind": "built_packet_never_reached_the_socket", "key": "server" if e["to_client"] else "client",
                       "detail": {"conn": e["conn"], "seq": seq, "t_built": round(e["t"], 4), "msgs": e["count"], "type": e["type"]}})
            break
        for t, msg, et, es in w.seams.logged_errors:
            if "unable to encode" in msg or "client update" in msg or "reactor:" in msg or et in ("struct.error", "error", "UnboundLocalError"):
                vs.append({"kind": "server_send_path_raised", "key": "%s" % et, "detail": {"t": t, "msg": msg, "exc": es}})
        for name, typ, msg in w.thread_exits:
            if typ != "SimAbort":
                vs.append({"kind": "server_thread_died", "key": typ, "detail": {"thread": name, "msg": msg}})
        # conservation on open connections: nothing stuck, nothing vanished
        for cn, cconn, sconn in open_pairs(w):
            for side, conn in (("client", cconn), ("server", sconn)):
                cname = w.conn_name(conn)
                for rec in w.sends:
                    if rec["conn"] != cname or rec["ok"] is not True or rec["status"] != "CONNECTED":
                        continue
                    s = rec["msgseq0"]
                    k = 0
                    while s != rec["msgseq1"] and k < 20000:
                        s = R.ring_add(s, 1)
                        k += 1
                        if (cname, s) not in mon.tx:
                            vs.append({"kind": "accepted_message_never_transmitted", "key": "%s:%s" % (side, "frag" if rec["len"] > cap1 else ("cap1%+d" % (rec["len"] - cap1) if cap1 - rec["len"] < 8 else "single")),
                                       "detail": {"len": rec["len"], "msgseq": s, "t": rec["t"], "mtu": mtu}})
                            break
        w.probes["datagrams_decoded_by_reference"] += mon.checked
        return vs


CHECK = C09()
