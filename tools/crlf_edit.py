#!/venv/bin/python
"""crlf_edit.py FILE  (reads a python literal list of (old, new) pairs from stdin)
Edits a CRLF file in place without touching its line endings. Each `old` must occur exactly once."""
import sys, ast
p = sys.argv[1]
pairs = ast.literal_eval(sys.stdin.read())
b = open(p, "rb").read()
crlf = b"\r\n" in b
for old, new in pairs:
    o, n = old.encode(), new.encode()
    if crlf:
        o, n = o.replace(b"\n", b"\r\n"), n.replace(b"\n", b"\r\n")
    if b.count(o) != 1:
        sys.exit("pattern occurs %d times: %r" % (b.count(o), old[:60]))
    b = b.replace(o, n)
open(p, "wb").write(b)
