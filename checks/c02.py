"""C02 - handshake authenticates the server, agrees one key, promotes on proof of key."""
import random
import struct
import collections

from checks.common import UdpCheck, Monitor, MTUS
from world.seams import P256_ORDER
from world.udpworld import SERVER_ADDR, client_addr, ConnectionStatus, PacketType, conn_mod, crypto_mod, context_mod, PacketHeader
from world import refmodel as R
from simkit.net import TaggedBytes

KINDS = ["honest", "honest", "mutate", "mutate", "mutate", "foreign", "replay-hello", "pin-mismatch", "evil-token",
         "challenge-games", "forged-challenge"]


class HandshakeMonitor(Monitor):
    wants_recv = True

    def attach(self, world):
        self.w = world
        self.root_signed = set()       # every payload the real root key signed
        self.verifies = []             # (t, client name, verifying key bytes, payload, ok)
        self.issued = {}               # id(server conn) -> token issued in its SERVER_HELLO
        self.challenge = {}            # id(server conn) -> (t, opened_by_reference, token carried)
        self._refs = []
        w = world
        mon = self
        PrivK, PubK = crypto_mod.EllipticCurvePrivateKey, crypto_mod.EllipticCurvePublicKey
        osign, overify = PrivK.sign, PubK.verify

        def sign(key, data):
            if key is w.root_key:
                mon.root_signed.add(bytes(data))
            return osign(key, data)

        def verify(key, signature, data):
            cn = w.current_client.name if w.current_client is not None else None
            try:
                overify(key, signature, data)
            except Exception:
                mon.verifies.append((w.k.now, cn, key.getBytes(), bytes(data), False))
                raise
            mon.verifies.append((w.k.now, cn, key.getBytes(), bytes(data), True))
        w.seams._set(PrivK, "sign", sign)
        w.seams._set(PubK, "verify", verify)
        SCC = conn_mod.ServerClientConnection
        ohello = SCC._recvClientHello

        def _recvClientHello(conn, data):
            r = ohello(conn, data)
            if conn.ctxt is w.ctxt and conn.token:
                mon.issued[id(conn)] = conn.token
                mon._refs.append(conn)
            return r
        w.seams._set(SCC, "_recvClientHello", _recvClientHello)

    def post_recv(self, conn, hdr, datagram, pre, result):
        if not (result and conn.isServer and hdr.pkt_type.value == PacketType.CHALLENGE_RESP.value):
            return
        if id(conn) in self.challenge:
            return
        body = R.open_gcm(conn.session_key_bytes, bytes(datagram)) if conn.session_key_bytes else None
        token = None
        if body is not None and len(body) >= 2:
            try:
                token = conn_mod.Serializable.loadb(body[2:]).token
            except Exception:       # noqa
                token = None
        self.challenge[id(conn)] = (self.w.k.now, body is not None, token)
        self._refs.append(conn)


class C02(UdpCheck):
    pid = "C02"
    budget = {"quick": 70, "thorough": 800}
    ncases = {"quick": 6000, "thorough": 300000}
    keep_states = False
    n_samples = 6
    rule = ("one trial = one tiny simulated run (real UdpClient(s) + real server, 2-4 s of virtual time) with seeded root and "
            "ephemeral key pairs (incl. edge scalars 1 and n-1) and one attack: honest handshake under loss / duplication / "
            "reordering of the three datagrams and several clients at once; single-byte mutation of one of the three handshake "
            "datagrams (CRC repaired) - all bytes of SERVER_HELLO and CHALLENGE_RESP and of the structured part of CLIENT_HELLO "
            "are covered across a batch; hello from a foreign server (own root key, consistent signature); SERVER_HELLO of "
            "another session; pinned-key mismatch; protocol-complete malicious client answering with another client's token; "
            "duplicated / late / misaddressed / plaintext-forged challenge responses.  oracle: client holds a key => it "
            "verified, with the pinned key, a payload the real root key signed; server reports connect => that connection "
            "accepted a CHALLENGE_RESP that opens under its key (reference AES-GCM) and carries the token it issued; both "
            "connected => same key, same token.  non-trivial = the attack datagram was actually delivered (or, for honest "
            "trials, a handshake datagram was lost/duplicated/reordered or an edge key was used); distinct = (kind, digest)")

    def gen(self, rng, tier, i):
        kind = KINDS[i % len(KINDS)]
        n = 2 if kind in ("replay-hello", "evil-token") else rng.choice([1, 1, 2, 3]) if kind == "honest" else 1
        interval = rng.choice([1 / 120, 1 / 60, 1 / 30])
        cfg = {"mtu": rng.choice(MTUS), "entry": rng.choice(["bare", "twisted", "udpserver"]),
               "latency": rng.choice([0.0, 0.005, 0.03]), "jitter": rng.choice([0.0, 0.0, 0.02]), "reactor_lag": 0.0,
               "instr_cost": 1e-6, "duration": 3.5,
               "server": {"interval": interval, "temp_timeout": rng.choice([0.6, 1.0, 2.0]), "conn_timeout": 5.0,
                          "offset": 1.7e9 + rng.randrange(10 ** 6)},
               "clients": [{"dt": min(interval, rng.choice([1 / 120, 1 / 60])), "offset": 1.7e9 + rng.randrange(10 ** 6),
                            "conn_timeout": rng.choice([0.8, 1.5])} for _ in range(n)],
               "phases": [], "kind": kind, "trial": i}
        plan = [{"op": "connect", "c": c, "t": round(0.02 + 0.15 * c * rng.random(), 4), "cb": True} for c in range(n)]
        if kind == "replay-hello":      # c1 completes its handshake first, then c0 starts
            plan[1]["t"] = 0.02
            plan[0]["t"] = round(0.4 + rng.random() * 0.3, 4)
        if kind == "honest":
            if rng.random() < 0.6:
                cfg["phases"].append({"t0": 0.0, "t1": 1.0, "loss": rng.choice([0.0, 0.15, 0.3]), "dup": rng.choice([0.0, 0.3, 0.6]),
                                      "dup_delay": rng.choice([0.0, 0.1, 0.7]), "delay_p": rng.choice([0.0, 0.4]), "delay": 0.3})
            cfg["edge_keys"] = rng.choice([None, None, "root", "server-eph", "client-eph"])
            for c in range(n):
                plan.append({"op": "send", "c": c, "t": 1.2, "len": 20, "retry": -1, "cb": False, "api": "send"})
        elif kind == "mutate":
            which = rng.choice([1, 2, 2, 3])
            cfg["mutate"] = {"dgram": which, "pos": i // len(KINDS), "val": rng.randrange(1, 256),
                             "mode": rng.choice(["xor", "xor", "set0", "setff"])}
        elif kind == "challenge-games":
            cfg["games"] = rng.choice(["dup", "late", "after-connected", "to-other-address"])
        elif kind == "pin-mismatch":
            plan[0]["pinned"] = True
            cfg["wrong_pin"] = True
        return {"cfg": cfg, "plan": plan}

    def monitors(self, case):
        self.mon = HandshakeMonitor()
        return [self.mon]

    def execute(self, case):
        r = super().execute(case)
        r["class"] = "%s|%s" % (case["cfg"]["kind"], r["digest"])
        return r

    # ------------------------------------------------------------------ attacks
    def prepare(self, w, case):
        cfg = case["cfg"]
        kind = cfg["kind"]
        rng = random.Random("c02|%s" % cfg["seed"])
        w.attack_delivered = 0
        ek = cfg.get("edge_keys")
        if ek == "root":
            w.seams.key_script = [rng.choice([1, P256_ORDER - 1, 2])]                  # first key drawn is the root key
        elif ek == "server-eph":
            w.seams.key_script = [None, None, rng.choice([1, P256_ORDER - 1])]        # root, client eph, server eph
        elif ek == "client-eph":
            w.seams.key_script = [None, rng.choice([1, P256_ORDER - 1])]
        if ek:
            ks = w.seams.key_script
            orig = w.seams.new_private_key

            def new_private_key():
                if ks:
                    v = ks.pop(0)
                    if v is not None:
                        w.seams.key_script = [v]
                        w.probe("edge_scalar_key_used")
                        try:
                            return orig()
                        finally:
                            w.seams.key_script = []
                w.seams.key_script = []
                return orig()
            w.seams.new_private_key = new_private_key
        if kind == "mutate":
            w.net.interceptors.append(lambda *a: self.ic_mutate(w, cfg, *a))
        elif kind == "foreign":
            w.after_build.append(lambda w_: self.setup_foreign(w_, rng))
        elif kind == "replay-hello":
            w.net.interceptors.append(lambda *a: self.ic_replay_hello(w, *a))
            w.saved_hello = None
        elif kind == "pin-mismatch":
            w.after_build.append(lambda w_: setattr(w_, "root_pub", crypto_mod.EllipticCurvePrivateKey.new().getPublicKey()))
        elif kind == "evil-token":
            self.setup_evil_token(w)
        elif kind == "challenge-games":
            w.net.interceptors.append(lambda *a: self.ic_games(w, cfg, *a))
        elif kind == "forged-challenge":
            w.net.interceptors.append(lambda *a: self.ic_forged_challenge(w, *a))

    @staticmethod
    def _which(s, d, o):
        """1 = CLIENT_HELLO, 2 = SERVER_HELLO, 3 = CHALLENGE_RESP of client c0's handshake."""
        if s == "c0" and d == "S" and o == 0:
            return 1
        if s == "S" and d == "c0" and o == 0:
            return 2
        if s == "c0" and d == "S" and o == 1:
            return 3
        return 0

    def ic_mutate(self, w, cfg, src, dst, s, d, o, data):
        m = cfg["mutate"]
        if self._which(s, d, o) != m["dgram"]:
            return None
        b = bytearray(data)
        h = R.dec_header(data)
        structured = 180 if m["dgram"] == 1 else len(b)
        pos = m["pos"] % min(len(b), structured) if m["dgram"] != 1 or (m["pos"] // 180) % 4 else m["pos"] % len(b)
        old = b[pos]
        b[pos] = {"xor": old ^ m["val"], "set0": 0 if old else 1, "setff": 0xFF if old != 0xFF else 0xFE}[m["mode"]]
        out = bytes(b)
        if m["dgram"] in (1, 2) and pos < len(b) - R.CRC:
            end = R.HDR + R.dec_header(out)["length"]
            if end + R.CRC == len(out):
                out = R.seal_crc(out[:R.HDR], out[R.HDR:end])      # repair the CRC: integrity must come from the signature
        w.attack_delivered += 1
        w.injections["mutate-dgram%d" % m["dgram"]] = w.injections.get("mutate-dgram%d" % m["dgram"], 0) + 1
        w.mutated_pos = (m["dgram"], pos)
        return [(out, 0.0, {"gen": "mitm-mutate", "dgram": m["dgram"], "pos": pos})]

    def setup_foreign(self, w, rng):
        """An attacker-run server with its own root key answers the client's hello in place of the real one."""
        att_root = crypto_mod.EllipticCurvePrivateKey.new()
        from mpgameserver.handler import EventHandler
        actxt = context_mod.ServerContext(EventHandler(), att_root)

        def ic(src, dst, s, d, o, data):
            if self._which(s, d, o) != 1:
                return None
            aconn = conn_mod.ServerClientConnection(actxt, src)
            actxt.temp_connections[src] = aconn
            try:
                aconn._recv_datagram(PacketHeader.from_bytes(True, data), data)
                pkt = aconn._build_packet()
                hello = aconn._encode_packet(pkt)
            except Exception:       # noqa
                return None
            w.attack_delivered += 1
            w.injections["foreign-server-hello"] = w.injections.get("foreign-server-hello", 0) + 1
            w.net.inject(SERVER_ADDR, src, hello, delay=0.001, meta={"gen": "mitm-foreign"})
            return [] if rng.random() < 0.7 else None       # usually the real server never sees the hello
        w.net.interceptors.append(ic)
        w.foreign_ctxt = actxt

    def ic_replay_hello(self, w, src, dst, s, d, o, data):
        """c1 handshakes first; its genuine SERVER_HELLO (signed by the real root) is given to c0 instead of c0's own."""
        if s == "S" and d == "c1" and o == 0:
            w.saved_hello = data
            return None
        if self._which(s, d, o) == 2 and w.saved_hello is not None:
            w.attack_delivered += 1
            w.injections["hello-of-other-session"] = w.injections.get("hello-of-other-session", 0) + 1
            return [(w.saved_hello, 0.0, {"gen": "mitm-replay-hello"})]
        return None

    def setup_evil_token(self, w):
        """c1 is a protocol-complete malicious client: it answers its own challenge with c0's token."""
        M = conn_mod.HandshakeClientChallengeResponseMessage
        odump = M.dumpb

        def dumpb(msg, *a, **kw):
            cur = w.current_client
            if cur is not None and cur.name == "c1":
                victim = w.clients[0].client
                if victim is not None and victim.conn is not None and victim.conn.token:
                    msg.token = victim.conn.token
                    w.attack_delivered += 1
                    w.injections["challenge-with-other-clients-token"] = w.injections.get("challenge-with-other-clients-token", 0) + 1
            return odump(msg, *a, **kw)
        w.seams._set(M, "dumpb", dumpb)

    def ic_games(self, w, cfg, src, dst, s, d, o, data):
        if self._which(s, d, o) != 3:
            return None
        g = cfg["games"]
        w.attack_delivered += 1
        w.injections["challenge-" + g] = w.injections.get("challenge-" + g, 0) + 1
        meta = {"gen": "mitm-challenge-" + g}
        if g == "dup":
            return [(data, 0.0, meta), (data, 0.002, meta), (data, 0.3, meta)]
        if g == "late":
            return [(data, (w.ctxt.temp_connection_timeout or 2.0) + 0.3, meta)]
        if g == "after-connected":
            return [(data, 0.0, meta), (data, 1.0, meta)]
        # to-other-address: the genuine sealed response arrives from an address that never said hello
        w.net.inject(("172.20.0.9", 4000), SERVER_ADDR, data, delay=0.001, meta=meta)
        return []

    def ic_forged_challenge(self, w, src, dst, s, d, o, data):
        """The token travels in clear inside SERVER_HELLO: forge a CRC-protected challenge response carrying it."""
        if self._which(s, d, o) != 3:
            return None
        victim = w.clients[0].client
        tok = victim.conn.token if victim is not None and victim.conn is not None else 0
        M = conn_mod.HandshakeClientChallengeResponseMessage()
        M.token = tok
        body = struct.pack(">H", 2) + M.dumpb()
        h = R.dec_header(data)
        out = []
        for typ in (R.T_CHALLENGE_RESP, R.T_CLIENT_HELLO):
            hb = R.enc_header(False, h["ctime"], h["seq"], h["ack"], typ, len(body), 1, h["ack_bits"])
            out.append((R.seal_crc(hb, body), 0.0, {"gen": "mitm-forged-challenge", "type": typ}))
        key = bytes(range(16))
        hb = R.enc_header(False, h["ctime"], h["seq"], h["ack"], R.T_CHALLENGE_RESP, len(body), 1, h["ack_bits"])
        out.append((R.seal_gcm(key, hb, body), 0.0, {"gen": "mitm-forged-challenge", "type": "wrong-key"}))
        w.attack_delivered += 1
        w.injections["forged-challenge"] = w.injections.get("forged-challenge", 0) + 3
        return out          # the genuine response is swallowed

    # ------------------------------------------------------------------ oracle
    def nontrivial(self, w, case):
        kind = case["cfg"]["kind"]
        if kind == "honest":
            return bool(sum(w.decider.counts.values())) or bool(w.probes.get("edge_scalar_key_used")) or len(w.clients) > 1
        return w.attack_delivered > 0

    def judge(self, w, case):
        vs = []
        mon = self.mon
        cfg = case["cfg"]
        kind = cfg["kind"]
        real_root = w.root_key.getPublicKey().getBytes()
        # ---- client side
        for inc in w.incarnations:
            c = inc["conn"]
            cname = inc["name"]
            pinned = c.server_public_key is not None
            if not pinned:
                continue
            has_key = bool(c.session_key_bytes)
            was_connected = any(st == "CONNECTED" for t, n, i, st in w.status_log if n == cname)
            if has_key or was_connected:
                pin = c.server_public_key.getBytes()
                good = [v for v in mon.verifies if v[1] == cname and v[4] and v[2] == pin and v[3] in mon.root_signed]
                if pin != real_root or not good:
                    vs.append({"kind": "client_adopted_key_without_genuinely_signed_parameters", "key": kind,
                               "detail": {"client": cname, "pin_is_real_root": pin == real_root,
                                          "verifies": [(round(v[0], 4), v[4], v[3] in mon.root_signed) for v in mon.verifies if v[1] == cname][:4],
                                          "mutated": getattr(w, "mutated_pos", None)}})
            if kind in ("foreign", "pin-mismatch") and (has_key or was_connected) and kind == "pin-mismatch":
                vs.append({"kind": "client_connected_to_server_with_other_key", "key": kind, "detail": {"client": cname}})
        # ---- server side
        for t, ev, cid, th, extra in w.hev:
            if ev != "connect":
                continue
            conn = w.handler.objs[cid]
            ch = mon.challenge.get(id(conn))
            issued = mon.issued.get(id(conn))
            if ch is None or not ch[1] or ch[0] > t + 1e-9 or ch[2] != issued or issued is None:
                vs.append({"kind": "server_promoted_without_valid_challenge_response", "key": kind,
                           "detail": {"addr": conn.addr, "challenge": ch, "issued": issued, "mutated": getattr(w, "mutated_pos", None)}})
            # both ends connected => same key and token
            for inc in w.incarnations:
                c = inc["conn"]
                if w.clients[int(inc["name"][1:])].addr == tuple(conn.addr) and c.status.value == ConnectionStatus.CONNECTED.value \
                        and c.session_key_bytes and c.token == conn.token:
                    if c.session_key_bytes != conn.session_key_bytes or len(c.session_key_bytes) != 16:
                        vs.append({"kind": "endpoints_disagree_on_session_key", "key": kind, "detail": {"addr": conn.addr}})
        # ---- honest and undisturbed: the handshake completes and both ends agree
        if kind == "honest" and not sum(w.decider.counts.values()):
            for cn in w.clients:
                c = cn.client.conn if cn.client is not None else None
                sc = w.ctxt.connections.get(cn.addr)
                if c is None or sc is None or c.status.value != ConnectionStatus.CONNECTED.value:
                    vs.append({"kind": "undisturbed_honest_handshake_failed", "key": str(cfg.get("edge_keys")),
                               "detail": {"client": cn.name, "status": c.status.name() if c is not None else None,
                                          "server_has": sc is not None, "excs": w.excs[:2]}})
                elif c.session_key_bytes != sc.session_key_bytes or c.token != sc.token or len(c.session_key_bytes) != 16:
                    vs.append({"kind": "endpoints_disagree_on_session_key", "key": "honest", "detail": {"client": cn.name}})
        return vs

    def sample(self, w, case):
        cfg = case["cfg"]
        return {"seed": case.get("seed"), "kind": cfg["kind"], "entry": cfg["entry"], "mutate": cfg.get("mutate"),
                "mutated_pos": getattr(w, "mutated_pos", None), "games": cfg.get("games"), "edge_keys": cfg.get("edge_keys"),
                "statuses": [(round(t, 3), n, st) for t, n, i, st in w.status_log][:6],
                "handler": [(round(e[0], 3), e[1]) for e in w.hev if e[1] != "starting"][:4],
                "verifies": [(round(v[0], 3), v[1], v[4], v[3] in self.mon.root_signed) for v in self.mon.verifies][:4],
                "faults": dict(w.decider.counts), "outcome": "violation" if w.violations else "pass"}


CHECK = C02()
