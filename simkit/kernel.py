"""Discrete-event kernel, virtual clocks, baton threads, simulated lock/condition.

One kernel = one simulated execution.  All ordering decisions are taken here:

* events live in a heap ordered by (virtual time, sequence number) - a total order;
* code of the system under test runs either directly on the kernel (main) thread
  inside an event, or on a *baton thread*: a real `threading.Thread` that only
  runs while the kernel has handed it the baton and that gives the baton back at
  every seam call (`FakeTime.sleep`, `SimCondition.wait`, blocking socket reads,
  explicit `yield_point`).  At no instant do two threads run.
* virtual time only moves when the kernel pops an event, when a baton thread
  sleeps, or (by `instr_cost`) when a baton thread reads a clock.

The kernel never reads a real clock and never draws randomness itself.
"""
import heapq
import hashlib
import threading


class SimAbort(BaseException):
    """Raised inside parked baton threads when the run is torn down."""


class HarnessError(Exception):
    """The simulator itself failed (caps, hangs, misuse). Never a VIOLATION."""


class Node:
    """A party with its own view of time."""
    __slots__ = ("name", "offset", "rate", "mono0", "step")

    def __init__(self, name, offset=0.0, rate=1.0, mono0=1000.0):
        self.name = name
        self.offset = offset      # wall clock = offset + rate*now + step
        self.rate = rate
        self.mono0 = mono0        # monotonic = mono0 + rate*now
        self.step = 0.0           # accumulated forward clock steps


class BatonThread:
    def __init__(self, kernel, name, node, target):
        self.k = kernel
        self.name = name
        self.node = node
        self.target = target
        self.sem = threading.Semaphore(0)
        self.done = False
        self.started = False
        self.exc = None
        self.waiting_on = None    # SimCondition while parked in wait()
        self.thread = threading.Thread(target=self._main, name="sim-" + name, daemon=True)

    def _main(self):
        self.sem.acquire()
        try:
            if self.k.aborting:
                raise SimAbort()
            self.target()
        except SimAbort:
            pass
        except BaseException as e:      # noqa - reported to the monitors
            self.exc = e
        finally:
            self.done = True
            self.k.rec("thread_exit", self.name, type(self.exc).__name__ if self.exc else "-")
            self.k._main_sem.release()

    def yield_to_kernel(self):
        """Give the baton back; returns when the kernel resumes this thread."""
        self.k._main_sem.release()
        self.sem.acquire()
        if self.k.aborting:
            raise SimAbort()


class Kernel:
    def __init__(self, max_events=5_000_000, max_time=1.0e6, instr_cost=1e-6,
                 hang_wall_s=60.0, keep_log=0):
        self.now = 0.0
        self._seq = 0
        self._heap = []
        self.nodes = {}
        self.cur_node = None
        self.cur_thread = None
        self.threads = []
        self.aborting = False
        self._main_sem = threading.Semaphore(0)
        self.max_events = max_events
        self.max_time = max_time
        self.instr_cost = instr_cost
        self.hang_wall_s = hang_wall_s
        self.nevents = 0
        self._digest = hashlib.sha256()
        self.nrec = 0
        self.keep_log = keep_log
        self.log = []
        self.line_cost = instr_cost / 4.0
        self.baton_locks = 0        # SimLocks currently held by a baton thread (no pre-emption inside)
        self.preemptions = 0
        self.blocked_tags = set()   # event tags deferred while e.g. the reactor is blocked
        self._deferred = []
        self.stop_flag = False

    # ------------------------------------------------------------------ nodes
    def node(self, name, **kw):
        n = self.nodes.get(name)
        if n is None:
            n = self.nodes[name] = Node(name, **kw)
        return n

    # ------------------------------------------------------------------ log
    def rec(self, kind, *fields):
        """Append to the event log / digest. Must never perturb the schedule."""
        line = "%.9f|%s|%s|%s" % (self.now, self.cur_node.name if self.cur_node else "-", kind,
                                  "|".join(map(str, fields)))
        self._digest.update(line.encode())
        self._digest.update(b"\n")
        self.nrec += 1
        if self.keep_log:
            self.log.append(line)
            if len(self.log) > self.keep_log:
                del self.log[: self.keep_log // 2]

    def digest(self):
        return self._digest.hexdigest()

    # ------------------------------------------------------------------ events
    def at(self, t, node, fn, *args, tag=None):
        if t < self.now:
            t = self.now
        self._seq += 1
        heapq.heappush(self._heap, (t, self._seq, node, fn, args, tag))

    def after(self, d, node, fn, *args, tag=None):
        self.at(self.now + (d if d > 0 else 0.0), node, fn, *args, tag=tag)

    def next_time(self):
        return self._heap[0][0] if self._heap else None

    # ------------------------------------------------------------------ threads
    def spawn(self, name, node, target):
        t = BatonThread(self, name, node, target)
        self.threads.append(t)
        t.thread.start()
        t.started = True
        self.at(self.now, node, self._resume, t)
        return t

    def _resume(self, t):
        if t.done:
            return
        prev_node, prev_thread = self.cur_node, self.cur_thread
        self.cur_node, self.cur_thread = t.node, t
        t.sem.release()
        if not self._main_sem.acquire(timeout=self.hang_wall_s):
            raise HarnessError("baton thread %s did not reach a seam within %.0fs wall" % (t.name, self.hang_wall_s))
        self.cur_node, self.cur_thread = prev_node, prev_thread

    def line_event(self):
        """Line-level pre-emption point (installed by the seams on selected functions through sys.monitoring)."""
        if self.cur_thread is not None and self.baton_locks == 0 and not self.aborting \
                and threading.current_thread() is self.cur_thread.thread:
            self.now += self.line_cost
            h = self._heap
            if h and h[0][0] <= self.now:
                self.preemptions += 1
                self.yield_point()

    def on_baton(self):
        ct = self.cur_thread
        return ct is not None and threading.current_thread() is ct.thread

    def thread_sleep(self, d):
        """Called on a baton thread: sleep d virtual seconds."""
        t = self.cur_thread
        target = self.now + (d if d > 0 else 0.0)
        nt = self._heap[0][0] if self._heap else None
        if (nt is None or nt > target) and not self.stop_flag:
            self.now = target        # nothing can happen in between: skip the switch
            return
        self.at(target, t.node, self._resume, t)
        t.yield_to_kernel()

    def yield_point(self, lag=0.0):
        """Called on a baton thread: let every event that is due run first."""
        t = self.cur_thread
        nt = self._heap[0][0] if self._heap else None
        if (nt is None or nt > self.now + lag) and not self.stop_flag:
            self.now += lag
            return
        self.at(self.now + lag, t.node, self._resume, t)
        t.yield_to_kernel()

    def park(self):
        """Called on a baton thread: block until some event resumes this thread."""
        self.cur_thread.yield_to_kernel()

    def wake(self, t, lag=0.0):
        self.at(self.now + lag, t.node, self._resume, t)

    # ------------------------------------------------------------------ main loop
    def run(self, until=None, stop=None):
        """Run events until `until` (virtual), the heap is empty or stop() is true."""
        while self._heap and not self.stop_flag:
            t = self._heap[0][0]
            if until is not None and t > until:
                break
            ev = heapq.heappop(self._heap)
            if ev[5] is not None and ev[5] in self.blocked_tags:
                self._deferred.append(ev)
                continue
            if t > self.now:
                self.now = t
            self.nevents += 1
            if self.nevents > self.max_events:
                raise HarnessError("event cap %d exceeded" % self.max_events)
            if self.now > self.max_time:
                raise HarnessError("virtual time cap exceeded")
            prev = self.cur_node
            self.cur_node = ev[2]
            try:
                ev[3](*ev[4])
            finally:
                self.cur_node = prev
            if stop is not None and stop():
                break
        if until is not None and not self.stop_flag and (stop is None or not stop()) and self.now < until:
            self.now = until

    def block_tag(self, tag):
        self.blocked_tags.add(tag)

    def unblock_tag(self, tag):
        self.blocked_tags.discard(tag)
        keep = []
        for ev in self._deferred:
            if ev[5] == tag:
                # re-queue with its original sequence number: relative order is kept
                heapq.heappush(self._heap, (max(ev[0], self.now),) + ev[1:])
            else:
                keep.append(ev)
        self._deferred = keep

    def shutdown(self):
        """Tear down: abort every parked thread."""
        self.aborting = True
        for t in self.threads:
            if not t.done:
                t.sem.release()
                if not self._main_sem.acquire(timeout=self.hang_wall_s):
                    raise HarnessError("thread %s did not abort" % t.name)
        for t in self.threads:
            t.thread.join(timeout=5)


class FakeTime:
    """Stands in for the `time` module inside the repository's modules."""

    def __init__(self, kernel, real_time_module):
        self.k = kernel
        self._real = real_time_module

    def __getattr__(self, name):          # strftime, gmtime, ... (never used for decisions)
        return getattr(self._real, name)

    def _tick(self):
        k = self.k
        if k.cur_thread is not None:
            # a baton thread is running: reading the clock costs virtual CPU time, and it is a
            # pre-emption point - every event that has become due runs before the thread goes on
            # (otherwise a loop that is behind schedule and never sleeps would starve all other nodes)
            k.now += k.instr_cost
            h = k._heap
            if h and h[0][0] <= k.now and k.baton_locks == 0 and not k.aborting:
                k.preemptions += 1
                k.yield_point()
        return k.cur_node

    def time(self):
        n = self._tick()
        if n is None:
            return self.k.now
        return n.offset + n.step + n.rate * self.k.now

    def monotonic(self):
        n = self._tick()
        if n is None:
            return 1000.0 + self.k.now
        return n.mono0 + n.rate * self.k.now

    perf_counter = monotonic

    def sleep(self, d):
        k = self.k
        if k.on_baton():
            n = k.cur_node
            k.thread_sleep(d / (n.rate if n else 1.0))
        else:
            raise HarnessError("time.sleep called from event context")


class SimLock:
    """A lock that is never contended because only one thread runs at a time and
    no thread parks while holding it (checked)."""

    def __init__(self, kernel=None):
        self.held = False
        self.k = kernel
        self.by_baton = False

    def acquire(self, blocking=True, timeout=-1):
        k = self.k
        if k is not None and k.cur_thread is not None and k.baton_locks == 0 and not k.aborting:
            # taking a lock is a pre-emption point of a baton thread: whatever is due (another thread that was
            # notified, an arriving datagram) runs first, as it could on a real machine
            k.now += k.instr_cost
            k.yield_point()
        if self.held:
            raise HarnessError("SimLock contended: a thread parked while holding the lock")
        self.held = True
        if k is not None and k.cur_thread is not None:
            self.by_baton = True
            k.baton_locks += 1
        return True

    def release(self):
        self.held = False
        if self.by_baton:
            self.by_baton = False
            k = self.k
            k.baton_locks -= 1
            if k.baton_locks == 0 and k.cur_thread is not None and not k.aborting:
                k.now += k.instr_cost
                k.yield_point()          # ... and so is giving it back

    def __enter__(self):
        self.acquire()
        return self

    def __exit__(self, *a):
        self.release()

    def locked(self):
        return self.held


class SimCondition:
    def __init__(self, kernel, lock):
        self.k = kernel
        self.lock = lock
        self.waiters = []
        self.wake_lag = None     # optional callable -> lag for a notified waiter

    def __enter__(self):
        self.lock.acquire()
        return self

    def __exit__(self, *a):
        self.lock.release()

    def wait(self, timeout=None):
        k = self.k
        if not k.on_baton():
            raise HarnessError("Condition.wait from event context")
        t = k.cur_thread
        # register as a waiter BEFORE the lock is given up: Condition.wait releases and waits atomically
        self.waiters.append(t)
        t.waiting_on = self
        k.rec("cv_wait", t.name)
        self.lock.release()
        if timeout is not None:
            k.at(k.now + timeout, t.node, self._timeout, t)
        try:
            k.park()
        finally:
            t.waiting_on = None
            if t in self.waiters:
                self.waiters.remove(t)
        self.lock.acquire()
        return True

    def _timeout(self, t):
        if t.waiting_on is self and t in self.waiters:
            self.waiters.remove(t)
            self.k._resume(t)

    def notify_all(self):
        if not self.lock.held:
            raise RuntimeError("cannot notify on un-acquired lock")       # as threading.Condition does
        ws, self.waiters = self.waiters, []
        for t in ws:
            lag = self.wake_lag() if self.wake_lag else 0.0
            self.k.rec("cv_notify", t.name)
            self.k.wake(t, lag)

    notify = notify_all
