#!/venv/bin/python
"""
d1 (property C04): a recorded datagram that is replayed after the 16 bit
datagram sequence number has wrapped around (or is half way around) is accepted
as a NEW datagram. Its application message is handed to the application a
second time, the stale ack field is acted upon, and the genuine datagram is
dropped in its place. The header's authenticated `ctime` field, which would
tell the two apart, is never looked at by the receiver.

Deterministic: fake clock, in-memory datagram passing between a real
ClientServerConnection and a real ServerClientConnection, driven exactly like
UdpClient.update() / UdpServerThread.run() drive them. No loss, duplication or
reordering other than the single replayed datagram. ~10 s of CPU.

exit 0: the replayed datagram was dropped and counted as dropped in both scenarios
exit 1: otherwise
"""
import os
import sys
import logging

sys.path.insert(0, os.path.join(os.path.dirname(os.path.abspath(__file__)), ".."))
logging.disable(logging.CRITICAL)

from mpgameserver.connection import (ClientServerConnection,
    ServerClientConnection, PacketHeader, ConnectionStatus, SeqNum)
from mpgameserver.context import ServerContext
from mpgameserver.handler import EventHandler
import mpgameserver.connection as connection_module

T0 = 1_700_000_000.0
NOW = [T0]
def clock():
    return NOW[0]
connection_module.time.time = clock   # FragmentReceiver.expired() reads time.time

SECRET = b"TRANSFER 100 coins to mallory"


class Session(object):
    def __init__(self):
        NOW[0] = T0
        self.ctxt = ServerContext(EventHandler(), None)
        self.client = ClientServerConnection(("10.0.0.1", 1000))
        self.server = ServerClientConnection(self.ctxt, ("10.0.0.1", 1000))
        self.client.clock = clock
        self.server.clock = clock
        self.client.send_keep_alive_interval = .1                       # UdpClient default
        self.server.send_keep_alive_interval = self.ctxt.keep_alive_interval
        self.server.outgoing_timeout = self.ctxt.outgoing_timeout
        self.ctxt.temp_connections[self.server.addr] = self.server
        self.server_app = []      # every message handed to the server application

    # --- the send half of UdpClient.update()
    def client_emit(self):
        c = self.client
        t0 = c.clock()
        datagram = None
        if t0 - c.last_send_time > c.send_interval:
            pkt = c._build_packet()
            if pkt is not None:
                datagram = c._encode_packet(pkt)
            c._check_timeout(t0)
        return datagram

    # --- what UdpServerThread.run() / send() do for one connection
    def server_emit(self):
        out = self.server.update()
        if out is not None:
            pkt, key, addr = out
            return pkt.to_bytes(key)
        return None

    def to_server(self, datagram):
        hdr = PacketHeader.from_bytes(True, datagram)
        ok = self.server._recv_datagram(hdr, datagram)
        for seq, msg in self.server.incoming_messages:
            self.server_app.append(msg)
        self.server.incoming_messages = []
        return ok

    def to_client(self, datagram):
        hdr = PacketHeader.from_bytes(False, datagram)
        ok = self.client._recv_datagram(hdr, datagram)
        self.client.incoming_messages = []
        return ok

    def tick(self):
        NOW[0] += 1/50      # a 50 Hz game loop (the library caps sending at 60 Hz)
        self.client.update()

    def handshake(self):
        self.client._sendClientHello()
        self.tick(); self.to_server(self.client_emit())
        self.tick(); self.to_client(self.server_emit())
        self.tick(); self.to_server(self.client_emit())
        assert self.client.status == ConnectionStatus.CONNECTED
        assert self.server.status == ConnectionStatus.CONNECTED
        assert self.server.addr in self.ctxt.connections

    def frame(self, n):
        """one frame of an ordinary game: one small message in each direction,
        delivered at once, nothing lost"""
        self.tick()
        self.client.send(b"input %d" % n)
        self.server.send(b"state %d" % n)
        d = self.client_emit(); assert d is not None
        ok1 = self.to_server(d)
        d = self.server_emit(); assert d is not None
        ok2 = self.to_client(d)
        return ok1, ok2


def scenario(name, frames_before_replay):
    print("---- %s" % name)
    s = Session()
    s.handshake()

    # the message that must take effect once. the attacker records the datagram.
    s.tick()
    s.client.send(SECRET)
    recorded = s.client_emit()
    rec = PacketHeader.from_bytes(True, recorded)
    assert s.to_server(recorded)
    d = s.server_emit()                 # (a keep alive, when one is due)
    if d is not None:
        s.to_client(d)
    assert s.server_app.count(SECRET) == 1

    # sanity: replayed right away it is dropped and counted, as the property says
    d0 = s.server.stats.dropped
    assert s.to_server(recorded) is False and s.server.stats.dropped == d0 + 1
    print("recorded datagram: seq=%d ctime=%d. immediate replay: dropped, counted (ok)" % (rec.seq, rec.ctime))

    for n in range(frames_before_replay):
        ok1, ok2 = s.frame(n)
        assert ok1 and ok2

    assert s.client.status == ConnectionStatus.CONNECTED
    assert s.server.status == ConnectionStatus.CONNECTED
    cur = s.server.bitfield_pkt.current_seqnum
    print("%d frames later (%.0f s of session): newest datagram the server has seen: seq=%d; "
          "recorded seq %d is %d datagrams in the past" % (frames_before_replay,
          NOW[0] - T0, cur, rec.seq, frames_before_replay))

    # ------------------------------------------------------------ the replay
    # the server has one datagram in flight that the client has not acked yet
    s.tick()
    s.server.send(b"state final")
    lost = s.server_emit()              # this datagram is lost on its way to the client
    lost_seq = PacketHeader.from_bytes(False, lost).seq
    pending_before = set(s.server.pending_acks)

    n_app = len(s.server_app)
    st = s.server.stats
    dropped, received, acked = st.dropped, st.received, st.acked
    accepted = s.to_server(recorded)    # byte for byte the datagram recorded above
    replay_msgs = s.server_app[n_app:]
    falsely_acked = sorted(pending_before - set(s.server.pending_acks))
    print("replay (header ctime is %d s old): _recv_datagram -> %s, stats.dropped %+d, "
          "stats.received %+d, stats.acked %+d" % (
          int(NOW[0]) - rec.ctime, accepted, st.dropped - dropped, st.received - received,
          st.acked - acked))
    print("server datagrams the replay acknowledged: %s (stale ack field of the replay: %d; "
          "server datagram seq=%d was lost and never reached the client)" % (
          falsely_acked, rec.ack, lost_seq))
    print("messages handed to the server application by the replay: %r" % replay_msgs)

    # what happens to the genuine traffic afterwards
    genuine_dropped = 0
    for n in range(300):    # 6 more seconds of play
        ok1, ok2 = s.frame(10**6 + n)
        if not ok1:
            genuine_dropped += 1
    timed_out = s.server.timedout(s.ctxt.connection_timeout)
    print("next 300 genuine client datagrams: %d dropped by the server; "
          "server considers the client timed out: %s" % (genuine_dropped, timed_out))

    count = s.server_app.count(SECRET)
    print("the application received %r %d time(s)" % (SECRET, count))
    bad = accepted or count != 1 or genuine_dropped or st.acked - acked != 0 and accepted
    return bad


bad1 = scenario("A: replay one full wrap later (the replayed seq is exactly the next expected one)",
                65535 - 1)
bad2 = scenario("B: replay half a wrap later (the replayed seq compares as 32767 NEWER than the newest)",
                32768)

if bad1 or bad2:
    print("FAIL: C04 violated - a replayed recorded datagram was accepted as new: "
          "message delivered twice / genuine datagrams dropped instead")
    sys.exit(1)
print("OK: replays dropped")
sys.exit(0)
