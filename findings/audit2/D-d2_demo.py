"""C18 - a text frame that ends in the middle of a UTF-8 sequence is not
delivered (and stalls the frames that follow it in the same read).

RFC 6455 section 5.6: "a particular text frame might include a partial UTF-8
sequence; however, the whole message MUST contain valid UTF-8". A client may
therefore cut the message "a€b" (61 E2 82 AC 62) between any two bytes:

    frame 1: FIN=0 opcode=0x1 (Text)  61 E2 82        <- first fragment
    frame 2: FIN=1 opcode=0x9 (Ping)  "p"             <- control frame between
                                                         fragments is allowed
    (the final fragment AC 62 would follow as a continuation frame; it is left
     out here because continuation frames fail for a different reason, see d1)

WebSocketTemporaryHandler.__call__ decodes every Text *frame* on its own with
payload.decode("utf-8"), after the frame has been removed from the buffer and
before the endpoint is called. Expected: two callbacks, Text then Ping.
"""
import sys
# ---- helpers (mock twisted request, mock endpoint, RFC 6455 client encoder) ----
import struct

from mpgameserver.http_server import (
    WebSocketTemporaryHandler, WebSocketTemporaryRingBuffer)


def client_frame(fin, opcode, payload, key=b"\x11\x22\x33\x44", rsv=0):
    """encode one masked client frame exactly as RFC 6455 section 5.2 says
    (independent of the library's encoder)"""
    b0 = (fin << 7) | (rsv << 4) | opcode
    n = len(payload)
    if n <= 125:
        hdr = struct.pack("!BB", b0, 0x80 | n)
    elif n <= 0xFFFF:
        hdr = struct.pack("!BBH", b0, 0x80 | 126, n)
    else:
        hdr = struct.pack("!BBQ", b0, 0x80 | 127, n)
    masked = bytes(c ^ key[i % 4] for i, c in enumerate(payload))
    return hdr + key + masked


class FakeTwistedRequest(object):
    """stands in for the twisted http.Request the ring buffer writes to"""
    def __init__(self):
        self.chunked = 1
        self.written = []

    def write(self, data):
        self.written.append(bytes(data))


class Endpoint(object):
    """stands in for the Route object: records every callback"""
    def __init__(self, raise_on=None):
        self.delivered = []
        self.raise_on = raise_on

    def callback(self, handler, opcode, payload):
        if isinstance(payload, (bytearray, memoryview)):
            payload = bytes(payload)
        self.delivered.append((opcode.value, payload))
        if self.raise_on is not None and payload == self.raise_on:
            raise RuntimeError("application error while handling %r" % (payload,))


def make_handler(endpoint):
    request = FakeTwistedRequest()
    buf = WebSocketTemporaryRingBuffer(request)
    handler = WebSocketTemporaryHandler(("127.0.0.1", 50000), {}, {}, buf, endpoint)
    return handler, request


def feed(handler, chunks):
    """give the handler the tcp reads one after the other. an exception that
    escapes from the handler is recorded, the following reads are still fed
    (what was raised is printed by the caller)"""
    errors = []
    for chunk in chunks:
        try:
            handler(chunk)
        except Exception as e:
            errors.append("%s: %s" % (type(e).__name__, e))
    return errors
# ---- end of helpers ----


text = "a€b".encode("utf-8")
frames = [
    client_frame(0, 0x1, text[:3]),     # valid first fragment, partial code point
    client_frame(1, 0x9, b"p"),
]

failures = []
for name, chunks in (("one frame per read", frames),
                     ("all frames in one read", [b"".join(frames)])):
    endpoint = Endpoint()
    handler, _ = make_handler(endpoint)
    errors = feed(handler, chunks)
    ops = [op for op, _ in endpoint.delivered]
    print("%-24s delivered=%r" % (name, endpoint.delivered))
    print("%-24s escaped exceptions=%r" % ("", errors))
    print("%-24s bytes left in buffer=%r" % ("", handler._buffer.buf))
    if ops != [0x1, 0x9]:
        failures.append("%s: endpoint saw opcodes %r, expected [1, 9]; escaped: %r" % (
            name, ops, errors))

# control: the same bytes in one unfragmented frame are fine, so the input is
# valid UTF-8 and only the cut inside the code point makes the difference
endpoint = Endpoint()
handler, _ = make_handler(endpoint)
assert feed(handler, [client_frame(1, 0x1, text)]) == []
assert endpoint.delivered == [(0x1, "a€b")], endpoint.delivered

if failures:
    print()
    for f in failures:
        print("VIOLATION:", f)
    sys.exit(1)
print("ok")
