"""
C01 - a datagram that is not authenticated under the session key must be
discarded without affecting the connection.

UdpClient.update() parses the 20 byte header of whatever arrived on the socket
(PacketHeader.from_bytes) outside of any error handling, before the datagram
reaches the authenticated receive path.  Arbitrary bytes (shorter than a
header, wrong magic, unknown packet type, or the client's own datagram
reflected back = "direction error") therefore are not discarded: the exception
leaves update() before the send half of the frame ran.  The datagram that was
due in this frame is not emitted and _check_timeout() is skipped; one junk
datagram per frame silences the client completely (no keep alive, no data, no
send ever times out) even though the application keeps calling update().

run: PYTHONPATH=/tmp/aud2/A /venv/bin/python d1_demo.py
"""
import sys
import struct
import logging

import mpgameserver.client as mclient
from mpgameserver.client import UdpClient
from mpgameserver.connection import PacketHeader, PacketType, \
    ServerClientConnection, ConnectionStatus
from mpgameserver.context import ServerContext
from mpgameserver.handler import EventHandler
from mpgameserver.crypto import EllipticCurvePrivateKey

logging.disable(logging.CRITICAL)

class Clock(object):
    def __init__(self, t):
        self.t = t
    def __call__(self):
        return self.t

class MockSocket(object):
    def __init__(self):
        self.inbox = []
        self.sent = []
    def sendto(self, datagram, addr):
        self.sent.append(datagram)
    def recvfrom(self, size):
        return self.inbox.pop(0), ('10.0.0.1', 1474)
    def close(self):
        pass

# readiness of the mock socket
mclient.select.select = lambda r, w, x, t=0: ([s for s in r if s.inbox], list(w), [])

def connected_pair():
    clock = Clock(1000.0)
    root = EllipticCurvePrivateKey.new()
    ctxt = ServerContext(EventHandler(), root)

    sock = MockSocket()
    client = UdpClient(root.getPublicKey())
    client._make_socket = lambda addr: sock
    client.connect(('10.0.0.1', 1474))
    client.conn.clock = clock
    client.conn.time_client_hello_sent = clock()

    client.update()                                   # CLIENT_HELLO
    hello = sock.sent.pop(0)
    server = ServerClientConnection(ctxt, ('10.0.0.2', 40000))
    server.clock = clock
    ctxt.temp_connections[server.addr] = server
    server._recv_datagram(PacketHeader.from_bytes(True, hello), hello)
    clock.t += 0.02
    pkt, key, _ = server.update()                     # SERVER_HELLO
    sock.inbox.append(pkt.to_bytes(key))
    client.update()                                   # adopts key, CHALLENGE_RESP
    resp = sock.sent.pop(0)
    server._recv_datagram(PacketHeader.from_bytes(True, resp), resp)
    assert client.status() == ConnectionStatus.CONNECTED
    assert server.status == ConnectionStatus.CONNECTED
    assert client.conn.session_key_bytes == server.session_key_bytes
    clock.t += 0.02
    return clock, client, sock, server

failures = []

# ---------------------------------------------------------------------------
# phase A: a single unauthenticated datagram in a frame where a message is due
clock, client, sock, server = connected_pair()
client.update(); sock.sent.clear(); clock.t += 0.02

own = None
client.send(b"probe")
client.update()
own = sock.sent.pop(0)                               # a genuine client->server datagram
clock.t += 0.02

junk = {
    "1 byte": b"\x00",
    "empty": b"",
    "19 bytes": b"FSOC" + b"\x00" * 15,
    "bad magic": b"XXXX" + b"\x00" * 40,
    "unknown packet type": struct.pack(">4sLHHBHBL", b"FSOC", 1000, 7, 0, 0x55, 0, 0, 0) + b"\x00" * 16,
    "own datagram reflected": own,
}

for name, datagram in junk.items():
    client.send(b"application message")
    sock.inbox.append(datagram)
    key_before = client.conn.session_key_bytes
    try:
        client.update()
        raised = None
    except Exception as e:
        raised = e
    emitted = len(sock.sent)
    sock.sent.clear()
    if raised is not None or emitted != 1:
        failures.append("%-24s update() raised %s: %s; datagrams emitted in this frame: %d (expected 1)" % (
            name, type(raised).__name__, raised, emitted))
    # flush
    clock.t += 0.02
    client.update(); sock.sent.clear(); clock.t += 0.02

# ---------------------------------------------------------------------------
# phase B: one junk datagram per frame for three seconds. the application
# is defensive and swallows the exception, still the connection is dead:
clock, client, sock, server = connected_pair()
results = []
client.send(b"important", retry=0, callback=results.append)   # must be acked or time out within 1s
sock.sent.clear()
frames = 0
for i in range(180):
    sock.inbox.append(b"\x00")
    try:
        client.update()
    except Exception:
        pass
    clock.t += 1/60 + 1e-4
    frames += 1
if len(sock.sent) == 0:
    failures.append("junk flood (1 datagram of 1 byte per frame, %d frames, 3s): the client emitted %d datagrams "
        "(no keep alive, the queued message never left), send callback results: %r" % (frames, len(sock.sent), results))

if failures:
    print("C01 violated: unauthenticated datagrams are not discarded by UdpClient.update()")
    for f in failures:
        print("  -", f)
    sys.exit(1)
print("ok")
