"""
D4 (C05 / C07): after Packet.setMTU() is lowered on a live connection, every
guaranteed message that is already pending and is larger than the new datagram
capacity is silently never sent again.

run: PYTHONPATH=/tmp/aud/C /venv/bin/python d4_demo.py

Packet.setMTU documents exactly this use: "The MTU can be decreased if the
network is dropping packets."

Scenario:
  * client and server connect with the default MTU of 1500.
  * the path changes: datagrams above 1200 bytes are silently dropped from now
    on (a path-MTU black hole), smaller datagrams are delivered immediately.
  * client.send_guaranteed(1400 bytes): every transmission is lost (allowed).
  * 2 s later the application reacts as documented: Packet.setMTU(1200).
    From now on every datagram the library builds (<= 1172 bytes) is delivered:
    the network has healed for everything the protocol sends.
What happens:
  the message was queued as ONE 1400 byte PendingMessage (RetrySender keeps
  re-queueing that same payload).  ConnectionBase._build_packet_impl compares it
  with the new Packet.MAX_PAYLOAD_SIZE (1134), it never "fits" again, is skipped
  in every frame and stays in outgoing_messages for ever.  It is not
  re-fragmented, no error is raised, the callback never runs.  A second 1400
  byte message sent after setMTU() is fragmented and arrives at once.
"""
import logging
import sys
import time as _real_time
import types

logging.disable(logging.CRITICAL)

import mpgameserver.connection as C
import mpgameserver.client as CL
from mpgameserver.connection import Packet, PacketHeader, PacketType, \
    ConnectionStatus, ServerClientConnection, FragmentSender
from mpgameserver.context import ServerContext
from mpgameserver.handler import EventHandler
from mpgameserver.client import UdpClient


# --------------------------------------------------------------------------
# deterministic harness: fake clock (anchored at time.time()), mock socket
class FakeTime(object):
    def __init__(self):
        self.now = self.t0 = _real_time.time()
    def time(self):
        return self.now
    def sleep(self, d):
        self.now += d
    def __getattr__(self, name):
        return getattr(_real_time, name)

class Handler(EventHandler):
    def __init__(self):
        self.received = []
        self.client = None
    def connect(self, client):
        self.client = client
    def handle_message(self, client, seqnum, msg=b''):
        self.received.append(msg)

class MockSock(object):
    def __init__(self, sim):
        self.sim = sim
        self.inbox = []
    def sendto(self, datagram, addr):
        self.sim.net_send('c2s', datagram)
    def recvfrom(self, n):
        return self.inbox.pop(0), self.sim.saddr
    def close(self):
        pass

class Sim(object):
    def __init__(self, dt=0.017):
        self.ft = FakeTime()
        C.time = self.ft      # ConnectionBase.clock and FragmentReceiver.expired()
        CL.time = self.ft
        self.dt = dt
        self.saddr = ('127.0.0.1', 1474)
        self.caddr = ('127.0.0.1', 5555)
        self.handler = Handler()
        self.ctxt = ServerContext(self.handler)
        self.client = UdpClient()
        self.sock = MockSock(self)
        self.client._make_socket = lambda addr: self.sock
        CL.select = types.SimpleNamespace(
            select=lambda r, w, x, t: ([self.sock] if self.sock.inbox else [], [self.sock], []))
        self.inflight = []
        self.order = 0
        self.policy = lambda direction, datagram: [0.0]   # list of delays, [] = lost
        self.server_queue = []
        self.client_received = []

    @property
    def t(self):
        return self.ft.now - self.ft.t0

    def net_send(self, direction, datagram):
        for d in self.policy(direction, datagram):
            self.order += 1
            self.inflight.append((self.ft.now + d, self.order, direction, datagram))

    def deliver(self):
        due = sorted(x for x in self.inflight if x[0] <= self.ft.now)
        self.inflight = [x for x in self.inflight if x[0] > self.ft.now]
        for _, _, direction, datagram in due:
            if direction == 'c2s':
                hdr = PacketHeader.from_bytes(True, datagram)
                self.server_queue.append((self.caddr, hdr, datagram))
            else:
                self.sock.inbox.append(datagram)

    def server_tick(self):
        # the body of UdpServerThread.run for one tick
        ctxt = self.ctxt
        while self.server_queue:
            addr, hdr, datagram = self.server_queue.pop(0)
            if addr in ctxt.connections:
                client = ctxt.connections[addr]
                client._recv_datagram(hdr, datagram)
                for seqnum, msg in client.incoming_messages:
                    ctxt.handler.handle_message(client, seqnum, msg)
                client.incoming_messages = []
            elif addr in ctxt.temp_connections:
                if hdr.pkt_type != PacketType.CHALLENGE_RESP:
                    continue
                ctxt.temp_connections[addr]._recv_datagram(hdr, datagram)
            else:
                if hdr.pkt_type != PacketType.CLIENT_HELLO:
                    continue
                client = ServerClientConnection(ctxt, addr)
                client.send_keep_alive_interval = ctxt.keep_alive_interval
                client.outgoing_timeout = ctxt.outgoing_timeout
                ctxt.temp_connections[addr] = client
                client._recv_datagram(hdr, datagram)
        sending = []
        for client in list(ctxt.connections.values()) + list(ctxt.temp_connections.values()):
            msg = client.update()
            if msg is not None:
                sending.append(msg)
        for pkt, key, addr in sending:
            self.net_send('s2c', pkt.to_bytes(key))

    def step(self, n=1):
        for _ in range(n):
            self.ft.now += self.dt
            self.deliver()
            self.server_tick()
            self.client.update()
            self.client_received.extend(m for _, m in self.client.getMessages())

    def connect(self):
        self.client.connect(self.saddr, None)
        for i in range(30):
            self.step()
        assert self.client.connected() and self.handler.client is not None
        self.sconn = self.handler.client
        self.cconn = self.client.conn

# --------------------------------------------------------------------------


sim = Sim()
sim.connect()

PATH_LIMIT = 1200
lost = []
def path(direction, datagram):
    if len(datagram) > PATH_LIMIT:
        lost.append((round(sim.t, 3), direction, len(datagram)))
        return []
    return [0.0]
sim.policy = path

FIRST = bytes(range(256)) * 5 + bytes(120)      # 1400 bytes, single datagram at MTU 1500
assert len(FIRST) == 1400
result_first = []
sim.client.send_guaranteed(FIRST, result_first.append)
sim.step(120)                                     # 2 s, every datagram carrying it is lost
assert FIRST not in sim.handler.received and len(lost) > 0

Packet.setMTU(1200)                               # documented reaction
n_lost_before = len(lost)

SECOND = bytes(reversed(FIRST))
result_second = []
sim.client.send_guaranteed(SECOND, result_second.append)

sim.step(60 * 30)                                 # 30 s

print("Packet.MAX_SIZE / MAX_PAYLOAD_SIZE now   :", Packet.MAX_SIZE, Packet.MAX_PAYLOAD_SIZE)
print("datagrams lost before / after setMTU     : %d / %d" % (n_lost_before, len(lost) - n_lost_before))
print("connection still open                    :", sim.client.connected(), sim.sconn.status)
print("SECOND (sent after setMTU) delivered     :", SECOND in sim.handler.received, result_second)
print("FIRST  (pending during setMTU) delivered :", FIRST in sim.handler.received, result_first)
print("FIRST still queued in the client         :", [len(m.payload) for m in sim.cconn.outgoing_messages])
Packet.setMTU(1500)

assert sim.client.connected() and sim.sconn.status == ConnectionStatus.CONNECTED
assert SECOND in sim.handler.received and result_second == [True]
# C05: "no payload size is silently left unsent"
assert FIRST in sim.handler.received, \
    "guaranteed message pending across setMTU() is never sent again (callback %r)" % (result_first,)
assert result_first == [True]
print("OK")
