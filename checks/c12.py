"""C12 - keep-alives and timeouts: idle links stay up, dead peers are detected, setters work."""
import random
import collections

from checks.common import UdpCheck, Monitor, MTUS, QueueConservation
from world.udpworld import accepted, ConnectionStatus, SERVER_ADDR, client_addr

CLIENT_DROP_S = 5.0       # fixed in ClientServerConnection.update


class TimingMonitor(Monitor):
    wants_recv = True

    def attach(self, world):
        self.w = world
        self.last_tx = {}        # (src name, dst name) -> t of last emitted datagram
        self.max_gap = collections.defaultdict(float)
        self.gaps = collections.defaultdict(list)    # link -> [(t_prev, t)] of the largest few
        self.last_accept = {}    # conn name -> virtual t of last accepted datagram
        self.first_accept = {}
        self.temp_first = {}     # addr -> virtual time its hello was accepted (entered the temp pool)
        self.temp_seen = {}      # addr -> [first tick seen in the temp pool, last tick seen]
        self.temp_gone = {}      # addr -> first tick it was no longer in the temp pool
        world.net.taps.append(self.tap)

    def tap(self, wid, t, src, dst, data, fate):
        s, d = self.w.net.name(src), self.w.net.name(dst)
        k = (s, d)
        if k in self.last_tx:
            g = t - self.last_tx[k]
            if g > self.max_gap[k]:
                self.max_gap[k] = g
            self.gaps[k].append((self.last_tx[k], t))
        self.last_tx[k] = t

    def post_recv(self, conn, hdr, datagram, pre, result):
        if accepted(result):
            cn = self.w.conn_name(conn)
            self.last_accept[cn] = self.w.k.now
            self.first_accept.setdefault(cn, self.w.k.now)
            if conn.isServer and tuple(conn.addr) in self.w.ctxt.temp_connections:
                self.temp_first.setdefault(tuple(conn.addr), self.w.k.now)

    def on_tick(self):
        # presence of half-open (temp) connections per tick
        w = self.w
        now = w.k.now
        for addr in w.ctxt.temp_connections:
            self.temp_seen.setdefault(addr, [now, now])[1] = now
        for addr, iv in self.temp_seen.items():
            if addr not in w.ctxt.temp_connections and addr not in self.temp_gone:
                self.temp_gone[addr] = now


class C12(UdpCheck):
    pid = "C12"
    budget = {"quick": 75, "thorough": 900}
    ncases = {"quick": 420, "thorough": 12000}
    per_run_wall_s = 400
    chunk = 1
    rule = ("case = (keep-alive, connection/handshake/message timeouts, server tick, client frame rate, latency/jitter, clock "
            "offset/skew) drawn under the statement's constraint keep-alive + tick + latency < peer timeout, and one scenario: "
            "idle link for 10 s .. 2 h of virtual time (some cross the 16-bit sequence wrap on keep-alives alone); link cut at "
            "an arbitrary instant in either or both directions; connect attempt that is never answered (with/without "
            "callback); every order of the three UdpClient setters relative to connect().  non-trivial = the scenario's "
            "deadline was actually reached in the run (idle period elapsed / cut happened while connected / timeout elapsed); "
            "distinct = (scenario, event-order digest)")

    # ------------------------------------------------------------------ generation
    def gen(self, rng, tier, i):
        interval = rng.choice([1 / 120, 1 / 60, 1 / 60, 1 / 30, 1 / 10])
        dt = rng.choice([d for d in (1 / 240, 1 / 120, 1 / 60, 1 / 60, 1 / 30, 1 / 15) if d <= max(interval, 1 / 60) + 1e-12])
        lat = rng.choice([0.0, 0.001, 0.01, 0.05, 0.2])
        jit = rng.choice([0.0, 0.0, 0.005, 0.05])
        scen = ["idle", "outage", "cut", "cut", "unanswered", "setters", "setters", "ctx", "idle", "outage", "neighbour-error", "ctx-idle"][i % 12]
        if tier == "quick" and i in (0, 1):
            scen = "idle-long"
        elif tier == "thorough" and i % 400 == 0:
            scen = "idle-long"
        s_keep = rng.choice([None, 0.02, 0.05, 0.1, 0.25, 0.5, 1.0, 2.0])
        c_keep = rng.choice([None, 0.02, 0.05, 0.1, 0.25, 0.5, 1.0, 2.0])
        # constraint of the statement: keep-alive + tick + latency < the peer's timeout
        c_emit = (c_keep or 0.1) + dt + lat + jit + 0.05
        s_emit = (s_keep or 0.1) + max(interval, 1 / 60) + lat + jit + 0.05
        conn_to = rng.choice([None, 1.0, 2.0, 5.0, 12.0, 30.0])
        if (conn_to or 5.0) <= c_emit * 1.5:
            conn_to = 5.0 if c_emit * 1.5 < 5.0 else 12.0
        if CLIENT_DROP_S <= s_emit * 1.5:
            s_keep = 0.5
        cfg = {
            "mtu": rng.choice(MTUS), "entry": rng.choice(["bare", "twisted", "udpserver"]),
            "latency": lat, "jitter": jit, "reactor_lag": rng.choice([0.0, 0.0, 0.002, 0.02, 0.04]),
            "instr_cost": rng.choice([1e-6, 5e-6]),
            "server": {"interval": interval, "keep_alive": s_keep, "conn_timeout": conn_to,
                       "configure_after_construction": rng.random() < 0.5,
                       "temp_timeout": rng.choice([None, 0.5, 2.0, 4.0]), "msg_timeout": None,
                       "offset": 1.7e9 + rng.randrange(10 ** 6), "rate": 1.0 + rng.choice([0, 0, 1e-3, -1e-3])},
            "clients": [{"dt": dt, "offset": 1.7e9 + rng.randrange(10 ** 6), "rate": 1.0 + rng.choice([0, 0, 1e-3, -1e-3]),
                         "keep_alive": c_keep, "t0": rng.random() * 0.05}],
            "phases": [], "scenario": scen,
        }
        # (a handshake needs three one-way trips: the handshake timeout has to leave room for them)
        tt = cfg["server"]["temp_timeout"]
        if tt is not None and tt < 3 * (lat + jit) + 4 * max(interval, dt) + 0.3:
            cfg["server"]["temp_timeout"] = 2.0 if 3 * (lat + jit) + 0.5 < 2.0 else 4.0
        plan = [{"op": "connect", "c": 0, "t": 0.05, "cb": True}]
        if scen == "ctx":
            # ServerContext setters: handshake (temp) timeout and message timeout, observed on the server side.
            # c1 stays connected (keeps the loop ticking); c0's handshake is cut right after its hello.
            cfg["clients"].append(dict(cfg["clients"][0], t0=0.01))
            ttemp = rng.choice([0.5, 1.0, 2.5])
            smsg = rng.choice([0.4, 1.5, 2.5])
            cfg["server"]["temp_timeout"] = ttemp
            cfg["server"]["msg_timeout"] = smsg
            cfg["latency"] = min(max(cfg["latency"], 0.02), 0.05)      # the short handshake timeouts below must leave room for c1
            cfg["jitter"] = min(cfg["jitter"], 0.005)
            plan = [{"op": "connect", "c": 1, "t": 0.05, "cb": True},
                    {"op": "connect", "c": 0, "t": 1.0, "cb": True, "pre": [["conn_timeout", 6.0]]}]
            cfg["phases"].append({"t0": 1.0 + 2.2 * dt, "t1": 10 ** 9, "src": "c0", "dst": "S", "cut": True})
            plan.append({"op": "ssend", "c": 1, "t": 3.0, "len": 10, "retry": 0, "cb": True, "api": "send"})
            cfg["phases"].append({"t0": 2.98, "t1": 3.0 + 3 * max(interval, 1 / 60) + 0.03, "src": "S", "dst": "c1", "cut": True})
            cfg["ctx"] = {"temp_timeout": ttemp, "msg_timeout": smsg}
            cfg["duration"] = 8.0
        elif scen == "ctx-idle":
            # like ctx, but the half-open handshake is the ONLY thing the server knows about: no connected client keeps
            # the loop ticking. The configured handshake timeout must take effect all the same. The probe observes the
            # pool through a harmless keep-alive-sized datagram from an unknown address long after the timeout.
            ttemp = rng.choice([0.5, 1.0, 2.5])
            cfg["server"]["temp_timeout"] = ttemp
            cfg["latency"] = min(max(cfg["latency"], 0.02), 0.05)
            cfg["jitter"] = 0.0
            plan = [{"op": "connect", "c": 0, "t": 0.5, "cb": True, "pre": [["conn_timeout", 8.0]]}]
            cfg["phases"].append({"t0": 0.5 + 2.2 * dt, "t1": 10 ** 9, "src": "c0", "dst": "S", "cut": True})
            cfg["ctx"] = {"temp_timeout": ttemp}
            cfg["duration"] = 0.5 + ttemp + 6.0
        elif scen == "neighbour-error":
            # two idle clients; for a while the kernel refuses every datagram the server sends towards the FIRST one
            # (ENOBUFS / unreachable). The second client's network is fine: its connection must stay up.
            cfg["clients"].append(dict(cfg["clients"][0], t0=0.02))
            plan = [{"op": "connect", "c": 0, "t": 0.05, "cb": True}, {"op": "connect", "c": 1, "t": 0.6, "cb": True}]
            t0 = round(2.0 + rng.random() * 2.0, 3)
            d = rng.choice([1.0, 3.0, 8.0])
            plan.append({"op": "sockerr", "t": t0, "d": d, "c": 0})
            cfg["neighbour"] = {"t": t0, "d": d}
            cfg["duration"] = t0 + d + 8.0
        elif scen == "outage":
            # a transient outage, shorter than both liveness timeouts, that swallows many consecutive datagrams
            # (often more than the 32-packet window), then a healed network: the connection must survive
            # an outage of d seconds can swallow one datagram on each side of it: the silence a peer sees is up to
            # d + 2 emission periods, which must stay below its timeout - otherwise the drop would be legitimate
            if (conn_to or 5.0) < 2 * c_emit + 0.6:
                conn_to = cfg["server"]["conn_timeout"] = 5.0 if 2 * c_emit + 0.6 <= 5.0 else 12.0
            if CLIENT_DROP_S < 2 * s_emit + 0.6:
                s_keep = cfg["server"]["keep_alive"] = 0.5
                s_emit = 0.5 + max(interval, 1 / 60) + lat + jit + 0.05
            limit = min((conn_to or 5.0) - 2 * c_emit, CLIENT_DROP_S - 2 * s_emit) - 0.3
            d = round(max(0.05, limit * rng.choice([0.2, 0.5, 0.7, 0.9])), 3)
            tc = round(2.0 + rng.random() * 2.0, 4)
            cfg["outage"] = {"t": tc, "d": d}
            cfg["phases"].append({"t0": tc, "t1": tc + d, "cut": True})
            if rng.random() < 0.5:      # keep datagrams flowing at the send cap during the outage
                for j in range(int((d + 0.5) * 60)):
                    plan.append({"op": rng.choice(["send", "ssend"]), "c": 0, "t": round(tc - 0.2 + j / 60.0, 4), "len": 5,
                                 "retry": 0, "cb": False, "api": "send"})
            cfg["duration"] = tc + d + 12.0
        elif scen == "idle":
            cfg["duration"] = rng.choice([10.0, 30.0, 30.0, 90.0, 600.0] if tier == "quick" else [10.0, 60.0, 600.0, 1800.0])
            if cfg["duration"] > 100 and (min(c_keep or 0.1, s_keep or 0.1) < 0.1):
                cfg["duration"] = 90.0
            rng_j = random.Random("idle-junk|%s" % (rng.getstate()[1][:3],))      # (does not consume from the main stream)
            if rng_j.random() < 0.5:
                # now and then a stray datagram without a valid header reaches the idle client's socket (a port scan, a
                # late datagram of somebody else's session): the link stays up and update() keeps returning
                for j in range(rng_j.choice([1, 4])):
                    plan.append({"op": "garbage", "global": True, "t": round(2.0 + rng_j.random() * (cfg["duration"] - 3.0), 3), "frm": "S", "to": "c0",
                                 "n": j, "kind": rng_j.choice(["random", "random", "magic"]), "len": rng_j.choice([0, 3, 19, 20, 36, 200])})
        elif scen == "idle-long":
            # slow ticks keep the cost of hours of virtual time low; the oracle scales with the tick
            if i % 2 == 0:      # wrap the 16-bit ring on keep-alives alone (needs > 65535 datagrams per direction)
                cfg["duration"] = 4600.0
                cfg["server"]["interval"] = 1 / 30
                cfg["clients"][0]["dt"] = 1 / 30
                cfg["clients"][0]["keep_alive"] = 0.05
                cfg["server"]["keep_alive"] = 0.05
            else:               # two hours of idling
                cfg["duration"] = 7200.0
                cfg["server"]["interval"] = 1 / 10
                cfg["clients"][0]["dt"] = 1 / 15
                cfg["clients"][0]["keep_alive"] = 1.0
                cfg["server"]["keep_alive"] = 1.0
            cfg["max_events"] = 20_000_000
            cfg["stub_sleep"] = True
        elif scen == "cut":
            tc = round(2.0 + rng.random() * 6.0, 4)
            how = rng.choice(["both", "to_server", "to_client"])
            cfg["cut"] = {"t": tc, "how": how}
            far = 10 ** 9
            if how in ("both", "to_server"):
                cfg["phases"].append({"t0": tc, "t1": far, "dst": "S", "cut": True})
            if how in ("both", "to_client"):
                cfg["phases"].append({"t0": tc, "t1": far, "src": "S", "cut": True})
            cfg["duration"] = tc + (conn_to or 5.0) + CLIENT_DROP_S + (conn_to or 5.0) + 3.0
        elif scen == "unanswered":
            cfg["phases"].append({"t0": 0.0, "t1": 10 ** 9, "dst": "S", "cut": True})
            to = rng.choice([None, 0.5, 1.0, 3.0])
            plan[0]["cb"] = rng.random() < 0.6
            if to is not None:
                plan[0]["pre"] = [["conn_timeout", to]]
            cfg["connect_timeout"] = to if to is not None else 2.0
            cfg["duration"] = cfg["connect_timeout"] + 6.0
            if plan[0]["cb"] and rng.random() < 0.3:
                plan[0]["cb_raises"] = True         # a buggy application callback: still exactly one call
            if rng.random() < 0.35:
                # the application keeps its UdpClient: an honest first session, the timeout is set while that connection
                # exists, then connect() again on the same object - and this attempt is never answered
                first = {"op": "connect", "c": 0, "t": 0.05, "cb": True}
                to2 = rng.choice([0.5, 1.0, 3.0])
                how = rng.choice(["after-connect", "after-connect", "before-first-connect"])
                if how == "before-first-connect":
                    first["pre"] = [["conn_timeout", to2]]
                    extra = []
                else:
                    extra = [{"op": "setter", "c": 0, "t": 1.0, "which": "conn_timeout", "value": to2}]
                t2 = 2.5
                second = dict(plan[0], t=t2, reuse=True)
                second.pop("pre", None)
                plan = [first] + extra + [second]
                cfg["phases"] = [{"t0": 2.0, "t1": 10 ** 9, "dst": "S", "cut": True}]
                cfg["connect_timeout"] = to2
                cfg["duration"] = t2 + to2 + 6.0
                cfg["second_attempt"] = how
            rng_late = random.Random("late-answer|%s" % (rng.getstate()[1][:3],))   # does not consume from the main stream
            if not cfg.get("second_attempt") and rng_late.random() < 0.5:
                # the answer is not lost but late: the server hello reaches the client after the attempt has been reported
                # as failed. The attempt stays failed (DISCONNECTED, one callback with False)
                # (a delay phase delivers after 25 % .. 100 % of its nominal delay)
                late_by = 4.0 * (cfg["connect_timeout"] + rng_late.choice([0.05, 0.2, 0.5]))
                cfg["phases"] = [{"t0": 0.0, "t1": 10 ** 9, "src": "S", "delay": late_by, "delay_p": 1.0}]
                cfg["late_answer"] = True
                cfg["duration"] = max(cfg["duration"], late_by + 2.0)
            elif not cfg.get("second_attempt") and rng_late.random() < 0.6:
                # while the attempt is pending somebody sends the client datagrams that are no answer: CRC-valid
                # SERVER_HELLO-typed datagrams with a meaningless body, junk. The attempt still ends after the timeout
                to_ = cfg["connect_timeout"]
                for j in range(rng_late.choice([1, 3])):
                    tt = round(plan[0]["t"] + to_ * rng_late.choice([0.2, 0.5, 0.8]) + 0.01 * j, 4)
                    if rng_late.random() < 0.6:
                        plan.append({"op": "forge", "global": True, "t": tt, "frm": "S", "to": "c0", "type": 2, "inner": [2], "ack": "none",
                                     "seq_off": 1 + j})
                    else:
                        plan.append({"op": "garbage", "global": True, "t": tt, "frm": "S", "to": "c0", "n": j,
                                     "kind": rng_late.choice(["random", "magic", "header"]), "len": rng_late.choice([0, 5, 19, 20, 40, 300])})
                cfg["junk_during_attempt"] = True
        else:   # setters: every order relative to connect
            vals = {"keep_alive": rng.choice([0.03, 0.2, 0.7]), "conn_timeout": rng.choice([0.7, 1.5, 4.0]),
                    "msg_timeout": rng.choice([0.4, 1.5, 2.5])}
            order = rng.sample(list(vals), 3)
            split = rng.randrange(0, 4)
            cfg["clients"][0]["keep_alive"] = None
            plan[0]["pre"] = [[w, vals[w]] for w in order[:split]]
            plan[0]["post"] = [[w, vals[w]] for w in order[split:]]
            plan[0]["no_cfg"] = True
            late = rng.random() < 0.4
            if late and split < 3:      # call the remaining setters well after the handshake instead of right after connect()
                plan[0]["post"] = []
                for w in order[split:]:
                    plan.append({"op": "setter", "c": 0, "t": 1.0, "which": w, "value": vals[w]})
            cfg["setters"] = vals
            # an unretried send whose datagram is lost shows the effective message timeout
            plan.append({"op": "send", "c": 0, "t": 3.0, "len": 10, "retry": 0, "cb": True, "api": "send"})
            cfg["phases"].append({"t0": 2.98, "t1": 3.0 + 3 * dt + 0.02, "dst": "S", "cut": True})
            cfg["duration"] = 8.0
        return {"cfg": cfg, "plan": plan}

    def monitors(self, case):
        self.mon = TimingMonitor()
        self.qc = QueueConservation()
        return [self.mon, self.qc]

    def prepare(self, w, case):
        from world.attacker import Attacker
        Attacker(w)

    def nontrivial(self, w, case):
        return getattr(w, "reached", False)

    def execute(self, case):
        r = super().execute(case)
        r["class"] = "%s|%s" % (case["cfg"]["scenario"], r["digest"])
        return r

    # ------------------------------------------------------------------ oracle
    def judge(self, w, case):
        vs = self.judge_scenario(w, case) or []
        interval = case["cfg"]["server"]["interval"]
        return vs + self.qc.judge(w, 3 * max(interval, 1 / 60) + case["cfg"]["reactor_lag"] + case["cfg"].get("wake_lag", 0) + 0.02)

    def judge_scenario(self, w, case):
        vs = []
        cfg = case["cfg"]
        scen = cfg["scenario"]
        mon = self.mon
        cn = w.clients[0]
        interval = cfg["server"]["interval"]
        dt = cn.dt
        tol = lambda x: x * 0.003 + 0.004          # clock skew 1e-3 + event granularity
        for e in w.excs:
            if e["where"].startswith("setter"):
                vs.append({"kind": "setter_raised", "key": "%s:%s:%s" % (e["where"], e["type"], "after-connect"),
                           "detail": e})
            elif e["where"] == "update" and cfg.get("junk_during_attempt") and "Error" in e["type"] and not e["type"].endswith("IOError") \
                    and e["type"] not in ("OSError", "TimeoutError", "AttributeError", "NameError", "TypeError"):
                # a CRC-valid but meaningless SERVER_HELLO makes the hello parser of a key-less client raise out of
                # update() (the repository's own tests expect that for a bad signature): outside C12; what is judged in
                # this scenario is that the attempt still ends after the timeout, with one callback
                w.probe("hello_parser_raised_out_of_update_before_key")
            elif e["where"] in ("connect", "update"):
                vs.append({"kind": "client_api_raised", "key": "%s:%s" % (e["where"], e["type"]), "detail": e})
        statuses = [(t, st) for t, name, inc, st in w.status_log]
        t_connected = next((t for t, st in statuses if st == "CONNECTED"), None)
        h_connect = next((e[0] for e in w.hev if e[1] == "connect"), None)
        h_disc = [e[0] for e in w.hev if e[1] == "disconnect"]
        s_keep = cfg["server"]["keep_alive"] or 0.1
        eff_c_keep = cfg["clients"][0].get("keep_alive") or 0.1
        if scen == "setters":
            eff_c_keep = cfg["setters"]["keep_alive"]
        T = cfg["server"]["conn_timeout"] or 5.0
        lat = cfg["latency"] + cfg["jitter"] + cfg["reactor_lag"]

        def gap_check(link, t_from, t_to, bound, who):
            worst = 0.0
            at = None
            for a, b in mon.gaps.get(link, ()):
                if a >= t_from and b <= t_to and b - a > worst:
                    worst, at = b - a, a
            if worst > bound + tol(bound):
                vs.append({"kind": "keep_alive_gap_exceeded", "key": "%s:%s" % (who, scen if scen != "idle-long" else "idle"),
                           "detail": {"gap": round(worst, 4), "bound": round(bound, 4), "at": at, "link": link,
                                      "keep_alive": eff_c_keep if who == "client" else s_keep}})
            return worst

        if scen == "ctx-idle":
            from world.udpworld import client_addr as _ca
            a0 = _ca(0)
            seen = mon.temp_first.get(a0)
            if seen is None:
                w.vacuous = True
                return vs
            w.reached = True
            Tt = cfg["ctx"]["temp_timeout"]
            still = a0 in w.ctxt.temp_connections
            if still and w.k.now - seen > Tt + 3.0:
                vs.append({"kind": "half_open_connection_never_removed", "key": "idle-server",
                           "detail": {"temp_timeout": Tt, "in_pool_since": round(seen, 3), "end": round(w.k.now, 3),
                                      "connected_clients": len(w.ctxt.connections)}})
            return vs
        if scen == "ctx":
            from world.udpworld import client_addr as _ca
            w.reached = True
            ctx = cfg["ctx"]
            a0 = _ca(0)
            sname = next((w.conn_name(sc) for sc in w.all_server_conns if w.net.name(sc.addr) == "c0"), None)
            la = mon.last_accept.get(sname)
            promoted = any(e[1] == "connect" and tuple(e[4][0]) == a0 for e in w.hev)
            if la is None or promoted:
                w.vacuous = True
            else:
                gone = mon.temp_gone.get(a0)
                Tt = ctx["temp_timeout"]
                hi = Tt + 2 * max(interval, 1 / 60) + interval + 0.05
                if gone is None:
                    vs.append({"kind": "half_open_connection_never_removed", "key": "", "detail": {"temp_timeout": Tt, "end": w.k.now}})
                elif gone - la < Tt - tol(Tt) or gone - la > hi + tol(hi):
                    vs.append({"kind": "context_setter_without_effect", "key": "temp_timeout:%s" % ("early" if gone - la < Tt else "late"),
                               "detail": {"configured": Tt, "removed_after": round(gone - la, 4), "window_hi": round(hi, 4)}})
            mid = next((s_["mid"] for s_ in w.sends if s_["who"] == "S"), None)
            sent = next((s_ for s_ in w.sends if s_["mid"] == mid), None)
            calls = [(t, v) for t, m, v in w.cbs if m == mid]
            if sent is not None and sent["ok"] and sent["status"] == "CONNECTED":
                mt = ctx["msg_timeout"]
                d = calls[0][0] - sent["t"] if calls else None
                if not calls or calls[0][1] is not False or d < mt - tol(mt) - interval or d > mt + 3 * max(interval, 1 / 60) + 0.25 + tol(mt):
                    vs.append({"kind": "context_setter_without_effect", "key": "msg_timeout", "detail": {"configured": mt, "callback": calls[:2], "after": d}})
            return vs
        if scen in ("idle", "idle-long", "setters", "cut", "outage"):
            if t_connected is None or h_connect is None:
                w.vacuous = True
                return vs
            t_end = cfg["cut"]["t"] if scen == "cut" else (2.9 if scen == "setters" else w.k.now)
            t_from_c = t_connected + 0.05 if scen != "setters" else 1.1
            gc = gap_check(("c0", "S"), t_from_c, t_end, eff_c_keep + dt, "client")
            gs = gap_check(("S", "c0"), h_connect + 0.05, t_end, s_keep + max(interval, 1 / 60) + interval + cfg["reactor_lag"], "server")
            if scen == "setters" and gc < eff_c_keep * 0.9 - 0.02 and any(a >= 1.1 for a, b in mon.gaps.get(("c0", "S"), ())):
                # the link is idle, so the observed cadence IS the keep-alive interval in effect
                vs.append({"kind": "setter_without_effect", "key": "keep_alive:%s" % self._when(case, "keep_alive"),
                           "detail": {"configured": eff_c_keep, "observed_max_gap": round(gc, 4)}})
        if scen == "neighbour-error":
            w.reached = bool(w.probes.get("server_sendto_error_injected"))
            st1 = [(t, st) for t, name, inc, st in w.status_log if name == "c1"]
            disc1 = [e[0] for e in w.hev if e[1] == "disconnect" and tuple(e[4]) == w.clients[1].addr]
            if not any(st == "CONNECTED" for t, st in st1):
                w.vacuous = True
                return vs
            if any(st in ("DROPPED", "DISCONNECTED") for t, st in st1) or disc1:
                vs.append({"kind": "send_error_towards_one_client_broke_another_connection", "key": cfg["entry"],
                           "detail": {"neighbour": cfg["neighbour"], "statuses_c1": st1[-3:], "handler_disconnect_c1": disc1[:1]}})
            for name, typ, msg in w.thread_exits:
                if typ != "SimAbort":
                    vs.append({"kind": "server_thread_died", "key": typ, "detail": msg})
            gap_check(("S", "c1"), 1.5, w.k.now, s_keep + max(interval, 1 / 60) + interval + cfg["reactor_lag"], "server")
            return vs
        if scen == "outage":
            o = cfg["outage"]
            if t_connected is None or t_connected > o["t"]:
                w.vacuous = True
                return vs
            w.reached = True
            w.probe("datagrams_lost_in_outage", w.decider.counts.get("partition_drop", 0))
            if any(st in ("DROPPED", "DISCONNECTED") for t, st in statuses if t > t_connected) or h_disc:
                vs.append({"kind": "connection_did_not_survive_transient_outage", "key": "",
                           "detail": {"outage_s": o["d"], "conn_timeout": T, "lost": w.decider.counts.get("partition_drop", 0),
                                      "statuses": statuses[-3:], "handler_disconnect": [round(x, 3) for x in h_disc[:2]]}})
            return vs
        if scen in ("idle", "idle-long"):
            w.reached = True
            if any(st in ("DROPPED", "DISCONNECTED") for t, st in statuses if t > t_connected) or h_disc:
                vs.append({"kind": "idle_connection_did_not_stay_up", "key": "idle",
                           "detail": {"statuses": statuses[-3:], "handler_disconnect": h_disc[:2], "duration": cfg["duration"],
                                      "T": T, "c_keep": eff_c_keep, "s_keep": s_keep}})
            if scen == "idle-long":
                w.probe("keepalive_only_period_ge_60s")
                if w.net.ordinals.get(("c0", "S"), 0) > 65535:
                    w.probe("seq_wrap_crossed_on_keepalives")
        elif scen == "cut":
            tc = cfg["cut"]["t"]
            how = cfg["cut"]["how"]
            if t_connected is None or t_connected > tc or h_connect is None or h_connect > tc:
                w.vacuous = True
                return vs
            w.reached = True
            sname = next((w.conn_name(sc) for sc in w.all_server_conns if w.net.name(sc.addr) == "c0"), None)
            cname = w.conn_name(w.incarnations[0]["conn"])
            # server side: disconnect within [T, T + 2 ticks + slack] after the last datagram it accepted
            la = mon.last_accept.get(sname)
            if how in ("both", "to_server"):
                if not h_disc:
                    vs.append({"kind": "silent_client_never_dropped_by_server", "key": how,
                               "detail": {"T": T, "last_accept": la, "end": w.k.now}})
                else:
                    d = h_disc[0] - la
                    hi = T + 2 * max(interval, 1 / 60) + interval + 0.05
                    if d < T - tol(T) or d > hi + tol(hi):
                        vs.append({"kind": "server_drop_outside_window", "key": "%s:%s" % (how, "early" if d < T else "late"),
                                   "detail": {"after_last_accept": round(d, 4), "T": T, "window_hi": round(hi, 4)}})
            # client side: DROPPED within [5, 5 + 2 frames] after the last datagram it accepted
            lc = mon.last_accept.get(cname)
            dropped = next((t for t, st in statuses if st == "DROPPED"), None)
            expects_drop = how in ("both", "to_client") or bool(h_disc)
            if expects_drop:
                if dropped is None:
                    vs.append({"kind": "client_never_reported_dropped", "key": how,
                               "detail": {"last_accept": lc, "end": w.k.now, "statuses": statuses[-3:]}})
                else:
                    d = dropped - lc
                    hi = CLIENT_DROP_S + 2 * dt + 0.02
                    if d < CLIENT_DROP_S - tol(CLIENT_DROP_S) or d > hi + tol(hi):
                        vs.append({"kind": "client_dropped_outside_window", "key": "%s:%s" % (how, "early" if d < CLIENT_DROP_S else "late"),
                                   "detail": {"after_last_accept": round(d, 4), "window_hi": round(hi, 4)}})
        elif scen == "unanswered":
            t0 = cn.connect_t
            last_connect = [op for op in case["plan"] if op["op"] == "connect" and op.get("c") == 0][-1:]
            if not last_connect or (cfg.get("second_attempt") and not (len(w.incarnations) == 2 and w.incarnations[1].get("reused"))):
                w.vacuous = True
                return vs
            failed_at = next((t for t, st in statuses if st == "DISCONNECTED" and t > t0), None)
            revived = [t for t, st in statuses if st == "CONNECTED" and t >= t0 and failed_at is not None and t > failed_at]
            if revived:
                # the attempt was reported as failed (DISCONNECTED) and a late server hello opened it again
                w.reached = True
                calls = [c for c in cn.connect_cbs if c[1] == cn.inc]
                vs.append({"kind": "failed_connect_attempt_revived_by_late_answer", "key": "cb" if last_connect[0].get("cb", True) else "nocb",
                           "detail": {"timeout": cfg["connect_timeout"], "failed_after": round(failed_at - t0, 4),
                                      "connected_after": round(revived[0] - t0, 4), "callbacks": calls[:4]}})
                return vs
            if any(st == "CONNECTED" and t >= t0 for t, st in statuses):      # the hello was answered in time (e.g. a minimiser removed the drops)
                w.vacuous = True
                return vs
            w.reached = True
            to = cfg["connect_timeout"]
            had_cb = last_connect[0].get("cb", True)
            disc = next((t for t, st in statuses if st == "DISCONNECTED" and t > t0), None)
            key = ("cb" if had_cb else "nocb") + (":second-attempt:" + cfg["second_attempt"] if cfg.get("second_attempt") else "")
            if disc is None:
                vs.append({"kind": "unanswered_connect_never_ends", "key": key,
                           "detail": {"timeout": to, "statuses": statuses, "end": w.k.now}})
            else:
                d = disc - t0
                hi = to + 2 * dt + 0.02
                if d < to - tol(to) or d > hi + tol(hi):
                    vs.append({"kind": "connect_failure_outside_window", "key": "%s:%s" % (key, "early" if d < to else "late"),
                               "detail": {"after_connect": round(d, 4), "timeout": to, "window_hi": round(hi, 4)}})
            calls = [c for c in cn.connect_cbs if c[1] == cn.inc]
            if had_cb:
                if len(calls) != 1 or calls[0][2] is not False:
                    vs.append({"kind": "connect_callback_wrong", "key": "n=%d" % len(calls),
                               "detail": {"calls": calls[:4], "timeout": to}})
                elif calls[0][0] - t0 < to - tol(to):
                    vs.append({"kind": "connect_callback_before_timeout", "key": "", "detail": {"calls": calls, "timeout": to}})
        elif scen == "setters":
            w.reached = True
            vals = cfg["setters"]
            # message timeout: the False callback of the lost unretried send arrives after the configured timeout
            mid = next((s["mid"] for s in w.sends if s["who"] == "c0"), None)
            calls = [(t, v) for t, m, v in w.cbs if m == mid]
            sent = next((s for s in w.sends if s["mid"] == mid), None)
            if sent is not None and sent["ok"] and sent["status"] == "CONNECTED":
                mt = vals["msg_timeout"]
                if not calls:
                    vs.append({"kind": "setter_without_effect", "key": "msg_timeout:%s:never" % self._when(case, "msg_timeout"),
                               "detail": {"configured": mt}})
                else:
                    d = calls[0][0] - sent["t"]
                    if calls[0][1] is not False or d < mt - tol(mt) - dt or d > mt + 3 * dt + 0.25 + tol(mt):
                        vs.append({"kind": "setter_without_effect", "key": "msg_timeout:%s" % self._when(case, "msg_timeout"),
                                   "detail": {"configured": mt, "callback_after": round(d, 4), "value": calls[0][1]}})
            conn = w.incarnations[0]["conn"]
            if abs(conn.temp_connection_timeout - vals["conn_timeout"]) > 1e-9 and not any(e["where"] == "setter:conn_timeout" for e in w.excs):
                vs.append({"kind": "setter_without_effect", "key": "conn_timeout:%s" % self._when(case, "conn_timeout"),
                           "detail": {"configured": vals["conn_timeout"], "in_effect": conn.temp_connection_timeout}})
        return vs

    @staticmethod
    def _when(case, which):
        op = case["plan"][0]
        if any(w == which for w, v in op.get("pre", ())):
            return "before-connect"
        return "after-connect"

    def sample(self, w, case):
        s = super().sample(w, case)
        s["scenario"] = case["cfg"]["scenario"]
        s["max_gaps"] = {"%s>%s" % k: round(v, 4) for k, v in self.mon.max_gap.items()}
        s["statuses"] = [(round(t, 3), st) for t, n, i, st in w.status_log][:6]
        return s


CHECK = C12()
