#! PYTHONPATH=/tmp/aud/A /venv/bin/python d4_demo.py
"""
C02 - altered SERVER_HELLO datagrams are accepted by a client that is
configured with the server public key.

Only the inner blob (server ephemeral key, salt, token) is covered by the
signature. Everything else in the datagram is protected by a crc32 which the
attacker simply recomputes, and none of it is checked:

  a. the root public key carried in the hello is replaced by the attacker's
     key (the client never compares it with the configured key)
  b. arbitrary bytes are appended to the hello message (the datagram level
     "exact length" check does not help, header length and crc are adjusted;
     nothing checks that the message was consumed completely)
  c. the ECDSA signature (r, s) is replaced by (r, n - s) - a different
     signature which the client accepts (signature malleability)
  d. header fields (time stamp / ack / ack bits) are rewritten

Every one of these altered hellos leaves the client CONNECTED with a key.
(The key is the genuine one - the impact is low - but the statement demands
that an altered hello leaves the client unconnected.)
"""
import sys
import struct
import logging
from io import BytesIO
logging.disable(logging.CRITICAL)

from cryptography.hazmat.primitives.asymmetric.utils import decode_dss_signature, encode_dss_signature

from mpgameserver.connection import ClientServerConnection, ServerClientConnection, \
    PacketHeader, PacketType, ConnectionStatus, HandshakeServerHelloMessage
from mpgameserver.context import ServerContext
from mpgameserver.handler import EventHandler
from mpgameserver.crypto import EllipticCurvePrivateKey
from mpgameserver.serializable import deserialize_value, serialize_value
from mpgameserver import crypto

P256_N = 0xFFFFFFFF00000000FFFFFFFFFFFFFFFFBCE6FAADA7179E84F3B9CAC2FC632551

NOW = [1000.0]
clock = lambda: NOW[0]

def split(datagram):
    """ datagram -> (header bytes, msg seq, root key, signed blob, signature) """
    hdr = datagram[:PacketHeader.SIZE]
    body = datagram[PacketHeader.SIZE:-4]
    msgseq, type_id = struct.unpack(">HH", body[:4])
    assert type_id == HandshakeServerHelloMessage.type_id
    stream = BytesIO(body[4:])
    rootkey = deserialize_value(stream)
    blob = deserialize_value(stream)
    signature = deserialize_value(stream)
    assert stream.read() == b""
    return hdr, msgseq, rootkey, blob, signature

def join(hdr, msgseq, rootkey, blob, signature, trailing=b""):
    stream = BytesIO()
    stream.write(struct.pack(">HH", msgseq, HandshakeServerHelloMessage.type_id))
    serialize_value(stream, rootkey)
    serialize_value(stream, blob)
    serialize_value(stream, signature)
    stream.write(trailing)
    body = stream.getvalue()
    # fix the length field of the header (offset 13, 2 bytes) and the crc
    hdr = hdr[:13] + struct.pack(">H", len(body)) + hdr[15:]
    datagram = hdr + body
    return datagram + struct.pack(">L", crypto.crc32(datagram))

def mut_rootkey(hdr, msgseq, rootkey, blob, signature):
    attacker = EllipticCurvePrivateKey.new().getPublicKey().getBytes()
    return join(hdr, msgseq, attacker, blob, signature)

def mut_trailing(hdr, msgseq, rootkey, blob, signature):
    return join(hdr, msgseq, rootkey, blob, signature, b"EXTRA BYTES" * 8)

def mut_signature(hdr, msgseq, rootkey, blob, signature):
    r, s = decode_dss_signature(signature)
    other = encode_dss_signature(r, P256_N - s)
    assert other != signature
    return join(hdr, msgseq, rootkey, blob, other)

def mut_header(hdr, msgseq, rootkey, blob, signature):
    # ctime at offset 4 (4 bytes), ack at offset 10 (2 bytes), ack bits at offset 16 (4 bytes)
    hdr = hdr[:4] + struct.pack(">L", 12345) + hdr[8:10] + struct.pack(">H", 999) + hdr[12:16] + struct.pack(">L", 0xA5A5A5A5)
    return join(hdr, msgseq, rootkey, blob, signature)

def handshake(mutate):
    root = EllipticCurvePrivateKey.new()
    ctxt = ServerContext(EventHandler(), root)
    ADDR = ("10.0.0.1", 40000)

    client = ClientServerConnection(("10.0.0.9", 1474))
    client.clock = clock
    client.setServerPublicKey(root.getPublicKey())
    client._sendClientHello()
    NOW[0] += 0.05
    ch = client._encode_packet(client._build_packet())

    server = ServerClientConnection(ctxt, ADDR)
    server.clock = clock
    ctxt.temp_connections[ADDR] = server
    server._recv_datagram(PacketHeader.from_bytes(True, ch), ch)
    NOW[0] += 0.05
    sh = server._encode_packet(server._build_packet())

    assert join(*split(sh)) == sh  # the helpers reproduce the genuine datagram bit for bit
    altered = mutate(*split(sh))
    assert altered != sh
    try:
        client._recv_datagram(PacketHeader.from_bytes(False, altered), altered)
    except Exception as e:
        print("     rejected: %s" % type(e).__name__)
    return client

# control: a hello whose signed blob is touched is rejected
def mut_blob(hdr, msgseq, rootkey, blob, signature):
    return join(hdr, msgseq, rootkey, blob[:-1] + bytes([blob[-1] ^ 1]), signature)

print("--- control: signed blob altered")
c = handshake(mut_blob)
assert c.status != ConnectionStatus.CONNECTED and c.session_key_bytes is None
print("     client stays unconnected, no key (as required)")

failed = []
for name, fn in [("a. embedded root key replaced", mut_rootkey),
                 ("b. bytes appended to the message", mut_trailing),
                 ("c. malleated signature (r, n-s)", mut_signature),
                 ("d. header rewritten", mut_header)]:
    print("--- %s" % name)
    c = handshake(fn)
    print("     status=%s key=%s" % (c.status, "set" if c.session_key_bytes else None))
    if c.status == ConnectionStatus.CONNECTED or c.session_key_bytes is not None:
        failed.append(name)

if failed:
    print("\nFAIL: altered hello accepted: %s" % "; ".join(failed))
    sys.exit(1)
print("all fine")
