"""World A: one real mpgameserver server, N real UdpClients, a simulated network, an attacker.

A run is `World(cfg, plan, fates).run()`; cfg/plan/fates are plain JSON data, so that
(cfg, plan, fates) *is* the replay file.  Checks add monitors (oracles) and may add ops.
"""
import hashlib
import struct
import logging
import collections

from simkit.kernel import Kernel, HarnessError
from simkit.net import Network, Decider, Phase, SimSocket, TaggedBytes, khash
from world.seams import Seams, conn_mod, server_mod, client_mod, twisted_mod, context_mod, crypto_mod

ConnectionStatus = conn_mod.ConnectionStatus
RetryMode = conn_mod.RetryMode
PacketType = conn_mod.PacketType
PacketHeader = conn_mod.PacketHeader
Packet = conn_mod.Packet

SERVER_ADDR = ("10.0.1.1", 1474)
ATTACKER_MARK = b"\xEEVIL\xEE"
SERVER_OPS = {"ssend", "sdisconnect", "sblock"}

DEFAULT_CFG = {
    "seed": 0,
    "mtu": 1500,
    "entry": "bare",              # bare | twisted | udpserver
    "duration": 10.0,
    "instr_cost": 1e-6,
    "latency": 0.01, "jitter": 0.0,
    "reactor_lag": 0.0,
    "server": {"interval": 1 / 60, "keep_alive": None, "conn_timeout": None, "temp_timeout": None,
               "msg_timeout": None, "blocklist": [], "echo": None, "offset": 1.7e9, "rate": 1.0,
               "pinned": True},
    "clients": [],                # [{dt, offset, rate, keep_alive, conn_timeout, msg_timeout, t0}]
    "phases": [],                 # network fault phases (Phase kwargs)
    "max_events": 3_000_000,
}


def client_addr(i):
    return ("10.0.%d.%d" % (2 + i // 200, 1 + i % 200), 40000 + i)


def make_payload(sender, inc, counter, length, kind):
    """8-byte id followed by filler of the requested kind; unique when length >= 8."""
    ident = struct.pack(">BBBBI", 0xA5, sender & 0xFF, inc & 0xFF, kind & 0xFF, counter & 0xFFFFFFFF)
    if length <= 8:
        return ident[8 - length:] if length else b""
    n = length - 8
    if kind == 0:       # keyed pseudo-random
        out = bytearray()
        c = 0
        while len(out) < n:
            out += hashlib.blake2b(ident + struct.pack(">I", c), digest_size=64).digest()
            c += 1
        fill = bytes(out[:n])
    elif kind == 1:     # zeros
        fill = bytes(n)
    elif kind == 2:     # looks like a fragment header / message length prefix
        fill = (b"\x00\x01" * (n // 2 + 1))[:n]
    elif kind == 3:     # ascending
        fill = bytes((i & 0xFF) for i in range(n))
    else:               # 0xFF
        fill = b"\xff" * n
    return ident + fill


def accepted(result):
    """_recv_datagram outcome as seen by the probes: True, or 'raised:<Exc>' when the datagram passed authentication and
    the window and a handler further down raised (the connection's bookkeeping has accepted it all the same)."""
    return result is True or (isinstance(result, str) and result.startswith("raised"))


def sig(payload):
    return (len(payload), hashlib.blake2b(bytes(payload), digest_size=10).hexdigest())


class Monitor:
    """Oracle base class. Override what you need; report with self.w.violation()."""
    wants_recv = False
    wants_build = False
    wants_ack = False
    wants_app = False
    wants_msg = False

    def attach(self, world):
        self.w = world

    def pre_recv(self, conn, hdr, datagram):
        return None

    def post_recv(self, conn, hdr, datagram, pre, result):
        pass

    def pre_build(self, conn):
        return None

    def on_build(self, conn, pkt, pre=None):
        pass

    def after_build(self, conn, pkt, pre=None):
        """Called after every _build_packet call, also when nothing was built (pkt is None)."""
        pass

    def on_ack(self, conn, seq, acked):
        pass

    def on_recv_app(self, conn, msgseq, payload):
        pass

    def on_recv_message(self, conn, typ, msgseq, payload, dup):
        pass

    def on_wire(self, wid, t, src, dst, data, fate):
        pass

    def on_tick(self):
        pass

    def at_end(self):
        pass


class SimHandler:
    """The server application: records every event, runs scripted server-side ops."""

    def __init__(self, world):
        self.w = world
        self.counts = collections.Counter()
        self.raise_at = {}         # (event, nth) -> True
        self.kick_at = {}          # (event, nth) -> (client index to disconnect from inside the handler, shutdown?)
        self.on_connect_sends = [] # send specs executed inside handler.connect for every new client
        self.stall_at = {}         # nth update -> seconds
        self.ops = collections.deque()
        self.echo = None
        self.kick_sigs = set()     # payload signatures: the application kicks the sender when it sees one of these
        self.cids = {}
        self.objs = []

    def cid(self, client):
        c = self.cids.get(id(client))
        if c is None:
            c = self.cids[id(client)] = len(self.objs)
            self.objs.append(client)
        return c

    def _ev(self, kind, client=None, extra=None):
        w = self.w
        k = w.k
        n = self.counts[kind]
        self.counts[kind] += 1
        th = k.cur_thread.name if k.on_baton() else "main"
        cid = self.cid(client) if client is not None else None
        if kind != "update":
            w.hev.append((k.now, kind, cid, th, extra))
            k.rec("h_" + kind, cid, th)
        else:
            w.update_threads.add(th)
            w.n_updates += 1
        kick = self.kick_at.get((kind, n))
        if kick is not None:
            target = w.ctxt.connections.get(client_addr(kick[0]))
            if target is not None and target is not client:
                w.app_event("S", self.cid(target), "server_disconnect_call")
                w.probe("kick_from_inside_" + kind + "_handler")
                target.disconnect()
            if kick[1]:
                w.shutdown_t = k.now if w.shutdown_t is None else min(w.shutdown_t, k.now)
                w.probe("shutdown_from_inside_handler")
                w.ctxt.shutdown()
        if (kind, n) in self.raise_at:
            w.probe("handler_raised_" + kind)
            raise RuntimeError("injected handler exception in %s #%d" % (kind, n))

    def starting(self):
        self._ev("starting")

    def shutdown(self):
        self._ev("shutdown")

    def connect(self, client):
        w = self.w
        self.cid(client)
        w.server_conns.append(client)
        w.name_conn(client, "S<%s#%d" % (w.net.name(client.addr), len(w.server_conns)))
        for sop in self.on_connect_sends:
            # the server application greets the new client from inside its connect handler
            w.probe("server_send_from_connect_handler")
            w.app_send("S", client, dict(sop, from_connect_handler=True))
        self._ev("connect", client, (client.addr, client.token))

    def disconnect(self, client):
        self._ev("disconnect", client, client.addr)

    def handle_message(self, client, seqnum, msg=b""):
        w = self.w
        w.delivered("S", client, msg, seqnum)
        self._ev("message", client, sig(msg))
        if self.kick_sigs and sig(msg) in self.kick_sigs:
            # the server application does not like this message (a cheat, a bad word): it kicks the sender
            w.app_event("S", self.cid(client), "server_disconnect_call")
            w.probe("kick_sender_from_inside_message_handler")
            client.disconnect()
            return
        if self.echo is not None and client.status == ConnectionStatus.CONNECTED:
            w.app_send("S", client, {"len": len(msg), "retry": self.echo, "cb": False, "api": "send",
                                       "payload": bytes(msg), "echo": True})

    def update(self, delta_t):
        w = self.w
        k = w.k
        n = self.counts["update"]
        while self.ops and self.ops[0]["t"] <= k.now:
            w.do_server_op(self.ops.popleft())
        d = self.stall_at.get(n)
        if d:
            w.probe("server_slow_tick")
            w.seams.ftime.sleep(d)
        self._ev("update")
        for m in w.monitors:
            w._guard(m.on_tick)


class ClientNode:
    def __init__(self, world, idx, ccfg):
        self.w = world
        self.k = world.k
        self.idx = idx
        self.name = "c%d" % idx
        self.cfg = ccfg
        self.addr = client_addr(idx)
        self.node = self.k.node(self.name, offset=ccfg.get("offset", 1.7e9), rate=ccfg.get("rate", 1.0),
                                mono0=500.0 + 37.0 * idx)
        self.dt = ccfg.get("dt", 1 / 60)
        self.inc = 0
        self.client = None
        self.sock = None
        self.ops = collections.deque()
        self.stall_until = 0.0
        self.counter = 0
        self.n_update = 0           # number of UdpClient.update() calls made by this node's frame loop
        self.last_status = None
        self.connect_cbs = []      # (t, inc, value)
        self.alive = True
        self.waiting = False

    def start(self):
        self.k.at(self.cfg.get("t0", 0.0), self.node, self.frame)

    def frame(self):
        k, w = self.k, self.w
        if k.now >= w.end_time or w.stopped:
            return
        if k.now < self.stall_until:
            k.at(self.stall_until, self.node, self.frame)
            return
        if self.waiting:
            # the application thread sits in UdpClient.waitForDisconnect(): no frame runs until that returns
            k.after(self.dt, self.node, self.frame)
            return
        while self.ops and self.ops[0]["t"] <= k.now:
            self.do(self.ops.popleft())
        c = self.client
        if c is not None and not self.waiting:
            w.current_client = self
            self.n_update += 1
            try:
                c.update()
            except Exception as e:      # noqa
                w.exc(self.name, "update", e)
            finally:
                w.current_client = None
            try:
                msgs = c.getMessages()
            except Exception as e:      # noqa
                w.exc(self.name, "getMessages", e)
                msgs = []
            if msgs and c.conn is not None:
                self.last_conn = c.conn
            for seq, msg in msgs:
                # (messages handed over while no connection object exists are booked on the last connection of this node)
                w.delivered(self.name, c.conn if c.conn is not None else getattr(self, "last_conn", None) or w.client_conns[-1], msg, seq)
            self.track_status()
        k.after(self.dt, self.node, self.frame)

    def track_status(self):
        c = self.client
        st = c.status().name() if c is not None else None
        if st != self.last_status:
            self.last_status = st
            self.w.status_log.append((self.k.now, self.name, self.inc, st))
            self.k.rec("status", self.name, st)

    def crash(self):
        if self.sock is not None:
            self.sock.close()
        self.client = None
        self.sock = None
        self.track_status()

    def do(self, op):
        w = self.w
        kind = op["op"]
        w.k.rec("op", self.name, kind)
        try:
            fn = getattr(self, "op_" + kind, None)
            if fn is None:
                fn = w.custom_ops[kind]
                fn(w, self, op)
            else:
                fn(op)
        except HarnessError:
            raise
        except Exception as e:          # noqa: API exceptions are data for the oracles
            w.exc(self.name, kind, e, op)

    # ---- ops
    def op_connect(self, op):
        w = self.w
        reuse = bool(op.get("reuse")) and self.client is not None
        if reuse:
            # the application keeps its UdpClient object across connection attempts: forceDisconnect(), connect() again.
            # Everything configured on the object earlier (server key, timeouts, keep-alive) still has to apply
            c = self.client
            c.forceDisconnect()
            self.sock = None
            w.probe("udpclient_object_reused_for_reconnect")
        elif self.client is not None:
            self.crash()
        self.inc += 1
        inc = self.inc
        if not reuse:
            pub = w.root_pub if op.get("pinned", w.cfg["server"].get("pinned", True)) else None
            c = client_mod.UdpClient(server_public_key=pub)
            self.pin = pub.getBytes() if pub is not None else None      # what the APPLICATION configured on this object

        def mk(addr, self=self):
            self.sock = SimSocket(w.net, self.addr, self.name, self.node, blocking=False)
            p_unw = w.cfg.get("client_unwritable_p", 0.0)
            if p_unw:
                # select() now and then reports the socket as not writable (full send buffer): sendto on a UDP socket
                # still works, and nothing the client has dequeued may be lost because of it
                def unwritable(cn=self, ctr=[0]):
                    ctr[0] += 1
                    if khash(w.cfg["seed"], "unwritable", cn.name, cn.inc, ctr[0])[0] < p_unw:
                        w.probe("client_socket_reported_not_writable")
                        return True
                    return False
                self.sock.unwritable = unwritable
            return self.sock
        c._make_socket = mk
        self.client = c
        for which, value in op.get("pre", ()):
            self.call_setter(which, value)
        cc = self.cfg
        if reuse:
            cc = {}         # already configured on this object
        if cc.get("keep_alive") is not None and not op.get("no_cfg"):
            self.call_setter("keep_alive", cc["keep_alive"])
        if cc.get("conn_timeout") is not None and not op.get("no_cfg"):
            self.call_setter("conn_timeout", cc["conn_timeout"])
        if cc.get("msg_timeout") is not None and not op.get("no_cfg"):
            self.call_setter("msg_timeout", cc["msg_timeout"])
        cb = None
        if op.get("cb", True):
            def cb(value, self=self, inc=inc):
                self.connect_cbs.append((self.k.now, inc, value))
                self.k.rec("connect_cb", self.name, inc, value)
                if value:
                    for sop in op.get("on_connect", ()):      # the application sends right from its connect callback
                        w.probe("send_from_connect_callback")
                        w.app_send(self.name, self.client, sop)
                if op.get("cb_raises"):
                    w.probe("connect_callback_raised")
                    raise AppError("application connect callback failed")
        self.connect_t = self.k.now
        c.connect(w.server_addr_for(self), callback=cb)
        w.name_conn(c.conn, "%s#%d" % (self.name, inc))
        w.client_conns.append(c.conn)
        w.incarnations.append({"name": self.name, "inc": inc, "t": self.k.now, "conn": c.conn, "cb": bool(cb), "pin": self.pin,
                               "reused": reuse})
        for which, value in op.get("post", ()):
            self.call_setter(which, value)
        self.track_status()

    def call_setter(self, which, value):
        c = self.client
        fn = {"keep_alive": c.setKeepAliveInterval, "conn_timeout": c.setConnectionTimeout,
              "msg_timeout": c.setMessageTimeout}[which]
        self.w.setter_log.append((self.k.now, self.name, self.inc, which, value, c.conn is not None))
        try:
            fn(value)
        except Exception as e:          # noqa
            self.w.exc(self.name, "setter:" + which, e)

    def op_setter(self, op):
        if self.client is not None:
            self.call_setter(op["which"], op["value"])

    def op_send(self, op):
        if self.client is None:
            return
        self.w.app_send(self.name, self.client, op)

    def op_disconnect(self, op):
        if self.client is not None:
            self.w.app_event(self.name, self.inc, "disconnect_call")
            self.client.disconnect()
            if op.get("wait"):
                # ... followed by the blocking convenience call the documentation recommends: it runs update() in a loop
                # (on the application's thread, here a baton thread of this node) until the server acknowledged the
                # disconnect or one second passed, then drops the connection object and closes the socket
                c = self.client
                self.waiting = True
                self.w.probe("client_waitForDisconnect")

                def run(self=self, c=c):
                    try:
                        c.waitForDisconnect()
                    except Exception as e:      # noqa
                        self.w.exc(self.name, "waitForDisconnect", e)
                    finally:
                        self.waiting = False
                        self.sock = None
                self.k.spawn("%s-waitdisc%d" % (self.name, self.inc), self.node, run)

    def op_rechallenge(self, op):
        """A protocol-complete but misbehaving client: it sends its (valid, encrypted) challenge response once more."""
        c = self.client
        if c is None or c.conn is None or not c.connected():
            return
        reply = conn_mod.HandshakeClientChallengeResponseMessage()
        reply.token = c.conn.token
        self.w.probe("client_resent_challenge_response")
        c.conn._send_type(PacketType.CHALLENGE_RESP, reply.dumpb(), RetryMode.NONE, None)

    def op_rehello(self, op):
        """A protocol-complete but misbehaving client (a modified game binary): inside its established session it sends
        another CLIENT_HELLO, sealed under the session key like everything else it sends, and follows the key change
        should the server answer with a new SERVER_HELLO.  With "burst" it first sends an application message the
        server application answers with a kick, immediately followed (ignoring the send rate cap) by the hello."""
        w = self.w
        c = self.client
        if c is None or c.conn is None or not c.connected() or self.sock is None:
            return
        conn = c.conn
        sock = self.sock
        if not getattr(sock, "_follows_rekey", False):
            sock._follows_rekey = True
            inner = sock._on_datagram

            def on_datagram(data, src, conn=conn, inner=inner):
                try:
                    hdr = conn_mod.PacketHeader.from_bytes(False, data)
                    if hdr.pkt_type.value == PacketType.SERVER_HELLO.value and conn.session_key_bytes:
                        pkt = conn_mod.Packet.from_bytes(hdr, None, data)
                        m = conn_mod.Serializable.loadb(pkt.msgs[0].payload, server_public_key=conn.server_public_key)
                        conn.session_key_bytes = conn_mod.crypto.ecdh_client(conn.session_key, m.server_pubkey, m.salt)
                        conn.token = m.token
                        conn.bitfield_pkt.insert(hdr.seq)
                        w.probe("misbehaving_client_followed_a_key_change")
                        return
                except Exception:       # noqa - not a hello for us: the ordinary path decides
                    pass
                inner(data, src)
            w.net.bind(sock.addr, sock.name, sock.node, on_datagram)

        def flush():
            pkt = conn._build_packet()
            if pkt is not None:
                sock.sendto(conn._encode_packet(pkt), c.addr)
        msg = conn_mod.HandshakeClientHelloMessage()
        msg.client_pubkey = conn.session_key.getPublicKey()
        msg.client_version = conn.version
        w.probe("client_sent_hello_inside_established_session")
        if op.get("burst"):
            rec = w.app_send(self.name, c, {"len": op.get("len", 24), "retry": 0, "cb": False, "api": "send"})
            w.handler.kick_sigs.add(rec["sig"])
            flush()
            conn._send_type(PacketType.CLIENT_HELLO, msg.dumpb(), RetryMode.NONE, None)
            flush()
        else:
            conn._send_type(PacketType.CLIENT_HELLO, msg.dumpb(), RetryMode.NONE, None)

    def op_csockerr(self, op):
        """The kernel refuses the client's next datagram (ENOBUFS, EPERM from a firewall rule ...): sendto raises once.
        UdpClient.update() passes that on to the application, which carries on calling update()."""
        if self.sock is not None:
            import errno
            self.sock.fail_next_send = op.get("errno", errno.ENOBUFS)
            self.w.probe("client_sendto_failure_armed")

    def op_crash(self, op):
        self.w.app_event(self.name, self.inc, "crash")
        self.crash()

    def op_stall(self, op):
        self.w.probe("client_stall")
        self.stall_until = self.k.now + op["d"]

    def op_clockstep(self, op):
        self.node.step += op["d"]
        self.w.probe("clock_step")


class AppError(RuntimeError):
    """Raised on purpose by a (simulated) buggy application callback; never a finding by itself."""


class World:
    current = None

    def __init__(self, cfg, plan, fates=None, monitors=(), keep_log=0):
        c = dict(DEFAULT_CFG)
        c.update(cfg)
        s = dict(DEFAULT_CFG["server"])
        s.update(cfg.get("server", {}))
        c["server"] = s
        self.cfg = c
        self.plan = sorted(plan, key=lambda o: o["t"])   # stable
        self.k = Kernel(max_events=c["max_events"], instr_cost=c["instr_cost"], keep_log=keep_log)
        phases = [Phase(**p) for p in c["phases"]]
        mode = "table" if fates is not None else "hash"
        self.decider = Decider(c["seed"], c["latency"], c["jitter"], phases, table=fates, mode=mode,
                               latency_of=c.get("latency_of"))
        self.net = Network(self.k, self.decider)
        self.seams = Seams(self.k, self.net, c["seed"], mtu=c["mtu"], reactor_lag_max=c["reactor_lag"])
        self.seams.wake_lag_max = c.get("wake_lag", 0.0)
        self.monitors = list(monitors)
        self.custom_ops = {}
        self.harness_exc = None    # first exception raised inside a monitor hook (fatal for the run)
        self.sockerrs = []         # (t0, t1, client addr): the server's sendto towards that address fails in [t0, t1)
        self.after_build = []      # fn(world) called once server and client nodes exist, before the run starts
        self.current_client = None # ClientNode whose update() is running
        self.violations = []
        self.probes = collections.Counter()
        self.injections = {}       # attacker generator -> datagrams injected
        self.maxima = {}           # name -> value, aggregated with max() over the runs of a batch
        self.end_time = c["duration"]
        self.stopped = False
        # logs
        self.sends = []            # app-level send records (dict)
        self.delivs = []           # (t, receiver, conn_name, sig, msgseq, payload-if-small)
        self.cbs = []              # (t, mid, value)
        self.cb_ctx = {}           # mid -> [(value, client node name | None, number of that node's update() call | None)]
        self.hev = []              # handler events
        self.update_threads = set()
        self.n_updates = 0
        self.status_log = []
        self.excs = []
        self.setter_log = []
        self.app_events = []
        self.conn_names = {}
        self._conn_refs = []
        self.server_conns = []     # connected (promoted) server-side conns, in order
        self.all_server_conns = [] # every ServerClientConnection ever created
        self.client_conns = []
        self.incarnations = []
        self.abstract_states = set()
        self.clients = []
        self.thread_exits = []
        self.shutdown_t = None
        self.server_counter = 0

    # ------------------------------------------------------------------ helpers
    def violation(self, kind, detail=None, key=""):
        self.violations.append({"kind": kind, "key": key, "t": round(self.k.now, 6), "detail": detail})
        self.k.rec("VIOLATION", kind)

    def probe(self, name, n=1):
        self.probes[name] += n

    def exc(self, who, where, e, op=None):
        if isinstance(e, AppError):
            self.probe("application_exception_surfaced_at_" + where.split(":")[0])
            self.k.rec("appexc", who, where)
            return          # the application's own exception came back to the application: not the library's fault
        self.excs.append({"t": round(self.k.now, 6), "who": who, "where": where, "type": type(e).__name__,
                          "msg": str(e)[:200], "op": {k: v for k, v in (op or {}).items() if k != "payload"}})
        self.k.rec("exc", who, where, type(e).__name__)

    def name_conn(self, conn, name):
        if id(conn) not in self.conn_names:
            self.conn_names[id(conn)] = name
            self._conn_refs.append(conn)

    def conn_name(self, conn):
        n = self.conn_names.get(id(conn))
        if n is None:
            if conn.isServer:
                self.all_server_conns.append(conn)
                n = "s<%s@%d" % (self.net.name(conn.addr), len(self.all_server_conns))
            else:
                n = "c?%d" % len(self._conn_refs)
            self.name_conn(conn, n)
        return n

    def app_event(self, who, inc, what):
        self.app_events.append((self.k.now, who, inc, what))
        self.k.rec("app", who, inc, what)

    def server_addr_for(self, cnode):
        return SERVER_ADDR

    # ------------------------------------------------------------------ app-level send / deliver
    def app_send(self, who, endpoint, op):
        """endpoint: UdpClient (who = 'cN') or ServerClientConnection (who = 'S')."""
        k = self.k
        if who == "S":
            conn = endpoint
            sender_id, inc = 0xFF, self.handler.cid(conn)
            self.server_counter += 1
            counter = self.server_counter
            peer = self.net.name(conn.addr)
        else:
            cn = self.clients[int(who[1:])]
            conn = endpoint.conn
            sender_id, inc = cn.idx, cn.inc
            cn.counter += 1
            counter = cn.counter
            peer = "S"
        payload = op.get("payload")
        if payload is None:
            payload = make_payload(sender_id, inc, counter, op["len"], op.get("kind", 0))
        mid = len(self.sends)
        retry = op.get("retry", 0)
        api = op.get("api", "send")
        rec = {"mid": mid, "who": who, "inc": inc, "peer": peer, "conn": self.conn_name(conn) if conn is not None else None,
               "len": len(payload), "sig": sig(payload), "retry": retry, "api": api, "t": k.now,
               "status": conn.status.name() if conn is not None else None, "cb": bool(op.get("cb")),
               "ok": None, "echo": bool(op.get("echo")), "on_connect": bool(op.get("on_connect")), "from_connect_handler": bool(op.get("from_connect_handler")),
               "small": bytes(payload[:24]),
               "q0": len(conn.outgoing_messages) if conn is not None else 0,
               "msgseq0": int(conn.seq_message) if conn is not None else 0,
               "fragseq0": int(conn.seq_fragment) if conn is not None else 0}
        self.sends.append(rec)
        cb = None
        if op.get("cb"):
            raises = op.get("cb_raises")

            def cb(value, mid=mid):
                self.cbs.append((k.now, mid, value))
                cur = self.current_client
                self.cb_ctx.setdefault(mid, []).append((value, cur.name if cur else None, cur.n_update if cur else None))
                k.rec("cb", mid, value)
                if raises == "always" or (raises == "on_false" and not value) or (raises == "on_true" and value):
                    # a buggy application callback: whatever it does is the application's problem, never the other sends'
                    self.probe("send_callback_raised")
                    raise AppError("application send callback failed")
        k.rec("send", who, len(payload), retry, api)
        buf = None
        if op.get("mutable"):
            # the application hands over its reusable serialization buffer (a bytearray) and writes into it again right
            # after the call: the library either refuses the type or has taken the bytes as they were at send() time
            buf = payload = bytearray(payload)
            rec["mutable"] = True
            self.probe("send_of_a_mutable_buffer")
        try:
            if api == "send_guaranteed":
                endpoint.send_guaranteed(payload, callback=cb)
            elif api == "send_default":        # UdpClient.send default retry (-1)
                endpoint.send(payload, callback=cb)
            else:
                endpoint.send(payload, retry=retry, callback=cb)
            rec["ok"] = True
            if buf is not None:
                self.probe("mutable_buffer_accepted_and_overwritten")
                for j in range(len(buf)):
                    buf[j] ^= 0xA5
        except TypeError as e:
            if buf is None:
                rec["ok"] = False
                rec["exc"] = type(e).__name__
                self.exc(who, "send:" + api, e, op)
            else:
                rec["ok"] = False           # refused: not a bytes object - nothing was queued, nothing will arrive
                rec["exc"] = "TypeError"
                rec["refused_mutable"] = True
        except Exception as e:          # noqa
            rec["ok"] = False
            rec["exc"] = type(e).__name__
            self.exc(who, "send:" + api, e, op)
        if conn is not None:
            rec["q1"] = len(conn.outgoing_messages)
            rec["msgseq1"] = int(conn.seq_message)
            rec["frag_id"] = int(conn.seq_fragment) if int(conn.seq_fragment) != rec["fragseq0"] else None
        return rec

    def delivered(self, receiver, conn, msg, msgseq):
        s = sig(msg)
        self.delivs.append((self.k.now, receiver, self.conn_name(conn), s, int(msgseq), bytes(msg[:24])))
        self.k.rec("deliver", receiver, s[0], s[1])
        if ATTACKER_MARK in msg[:64]:
            self.violation("attacker_marker_delivered", {"receiver": receiver, "head": bytes(msg[:32]).hex()})

    # ------------------------------------------------------------------ server ops
    def do_server_op(self, op):
        kind = op["op"]
        self.k.rec("sop", kind)
        try:
            if kind in self.custom_ops:
                self.custom_ops[kind](self, None, op)
                return
            target = self.ctxt.connections.get(client_addr(op["c"])) if "c" in op else None
            if kind == "ssend":
                if target is not None:
                    self.app_send("S", target, op)
            elif kind == "sblock":
                # the operator puts the address of a (connected) client on the block list while the server runs
                ip = client_addr(op["c"])[0]
                self.probe("block_list_changed_at_run_time")
                self.ctxt.setBlockList(set(self.ctxt.blocklist) | {ip})
            elif kind == "sdisconnect":
                if target is not None:
                    self.app_event("S", self.handler.cid(target), "server_disconnect_call")
                    target.disconnect()
            else:
                raise HarnessError("unknown server op %s" % kind)
        except HarnessError:
            raise
        except Exception as e:          # noqa
            self.exc("S", kind, e, op)

    def op_shutdown(self, op):
        self.shutdown_t = self.k.now if self.shutdown_t is None else min(self.shutdown_t, self.k.now)
        self.probe("shutdown_with_%d_clients" % min(len(self.ctxt.connections), 3))
        self.k.rec("shutdown", op.get("how"))
        if op.get("how") == "stop" and self.tserver is not None:
            self.tserver.stop()
        else:
            self.ctxt.shutdown()
            th = self.server_thread or getattr(self.userver, "thread", None)
            if th is not None:
                th._wake()

    # ------------------------------------------------------------------ probes on the connection classes
    def _guard(self, fn, *a):
        """Run a monitor hook; an exception in the machinery must never be swallowed by the code under test."""
        try:
            return fn(*a)
        except HarnessError:
            raise
        except Exception as e:      # noqa
            import traceback
            if self.harness_exc is None:
                self.harness_exc = "%s: %s\n%s" % (type(e).__name__, e, traceback.format_exc()[-1500:])
            return None

    def _install_probes(self):
        w = self
        CB = conn_mod.ConnectionBase
        mon_recv = [m for m in self.monitors if m.wants_recv]
        mon_build = [m for m in self.monitors if m.wants_build]
        mon_ack = [m for m in self.monitors if m.wants_ack]
        mon_app = [m for m in self.monitors if m.wants_app]
        mon_msg = [m for m in self.monitors if m.wants_msg]
        S = self.seams
        if mon_recv:
            orig = CB._recv_datagram

            def _recv_datagram(conn, hdr, datagram):
                pre = [w._guard(m.pre_recv, conn, hdr, datagram) for m in mon_recv]
                try:
                    res = orig(conn, hdr, datagram)
                except Exception as e:      # noqa: the oracles still see the state the call left behind
                    for m, p in zip(mon_recv, pre):
                        w._guard(m.post_recv, conn, hdr, datagram, p, "raised:" + type(e).__name__)
                    raise
                for m, p in zip(mon_recv, pre):
                    w._guard(m.post_recv, conn, hdr, datagram, p, res)
                return res
            S._set(CB, "_recv_datagram", _recv_datagram)
        if mon_build:
            orig_b = CB._build_packet

            def _build_packet(conn):
                pre = [w._guard(m.pre_build, conn) for m in mon_build]
                pkt = orig_b(conn)
                if pkt is not None:
                    for m, p in zip(mon_build, pre):
                        w._guard(m.on_build, conn, pkt, p)
                for m, p in zip(mon_build, pre):
                    w._guard(m.after_build, conn, pkt, p)
                return pkt
            S._set(CB, "_build_packet", _build_packet)
        if mon_ack:
            orig_a, orig_t = CB._handle_ack, CB._handle_timeout

            def _handle_ack(conn, seqnum):
                for m in mon_ack:
                    w._guard(m.on_ack, conn, seqnum, True)
                return orig_a(conn, seqnum)

            def _handle_timeout(conn, seqnum):
                for m in mon_ack:
                    w._guard(m.on_ack, conn, seqnum, False)
                return orig_t(conn, seqnum)
            S._set(CB, "_handle_ack", _handle_ack)
            S._set(CB, "_handle_timeout", _handle_timeout)
        if mon_app:
            orig_r = CB._recvApp

            def _recvApp(conn, msgseq, msg):
                for m in mon_app:
                    w._guard(m.on_recv_app, conn, msgseq, msg)
                return orig_r(conn, msgseq, msg)
            S._set(CB, "_recvApp", _recvApp)
        if mon_msg:
            orig_m = CB._recv_message

            def _recv_message(conn, typ, msgseq, msg):
                dup = w._guard(lambda: conn.bitfield_msg.contains(msgseq) if conn.bitfield_msg.current_seqnum != 0 else False)
                for m in mon_msg:
                    w._guard(m.on_recv_message, conn, typ, msgseq, msg, dup)
                return orig_m(conn, typ, msgseq, msg)
            S._set(CB, "_recv_message", _recv_message)
        # every ServerClientConnection ever created gets a stable name
        SCC = conn_mod.ServerClientConnection
        orig_init = SCC.__init__

        def scc_init(conn, ctxt, addr):
            orig_init(conn, ctxt, addr)
            w.all_server_conns.append(conn)
            w.name_conn(conn, "s<%s@%d" % (w.net.name(addr), len(w.all_server_conns)))
        S._set(SCC, "__init__", scc_init)

    # ------------------------------------------------------------------ build + run
    def _build_server(self):
        c = self.cfg
        sc = c["server"]
        k = self.k
        if c.get("stub_sleep"):
            # hours of virtual time: replace the repository's 0.5 ms busy-sleep helper (200 time.sleep calls per
            # 0.1 s tick) by one virtual sleep with the same contract (returns within eps2 before the deadline).
            # Only used by the long idle runs; reported as a stub in their evidence.
            ft = self.seams.ftime
            self.seams._set(server_mod, "sleep", lambda d, eps1=0.001, eps2=0.0005: ft.sleep(d - eps2 / 2) if d >= eps1 else None)
            self.probe("server_sleep_helper_stubbed")
        self.snode = k.node("S", offset=sc.get("offset", 1.7e9), rate=sc.get("rate", 1.0), mono0=1000.0)
        self.seams.reactor_node = self.snode
        self.handler = SimHandler(self)
        self.handler.echo = sc.get("echo")
        k.cur_node = self.snode
        self.root_key = crypto_mod.EllipticCurvePrivateKey.new()
        self.root_pub = self.root_key.getPublicKey()
        ctxt = self.ctxt = context_mod.ServerContext(self.handler, self.root_key)

        def configure():
            ctxt.setInterval(sc["interval"])
            if sc.get("keep_alive") is not None:
                ctxt.setKeepAliveInterval(sc["keep_alive"])
            if sc.get("conn_timeout") is not None:
                ctxt.setConnectionTimeout(sc["conn_timeout"])
            if sc.get("temp_timeout") is not None:
                ctxt.setTempConnectionTimeout(sc["temp_timeout"])
            if sc.get("msg_timeout") is not None:
                ctxt.setMessageTimeout(sc["msg_timeout"])
            if sc.get("blocklist"):
                ctxt.setBlockList(set(sc["blocklist"]))
            if sc.get("access_log"):
                # enableAccessLogs() with the file handler replaced by a plain in-memory logger (no file I/O in the simulation)
                self.seams._set(context_mod, "setupLogger", lambda name, path: logging.getLogger(name))
                ctxt.enableAccessLogs("/simulated/access.log")
                self.probe("access_log_enabled")
        # "settings made on the ServerContext before the server starts": both orders are legal - configure and then
        # construct the server object, or construct it first and configure before starting it
        late = bool(sc.get("configure_after_construction"))
        if not late:
            configure()
        else:
            ctxt.setInterval(sc["interval"])        # (the thread object copies the interval for its statistics)
            self.probe("context_configured_after_server_construction")
        self.tserver = None
        self.userver = None
        entry = c["entry"]
        self.seams.server_send_hook = self._maybe_sockerr
        if entry == "bare":
            self.ssock = SimSocket(self.net, SERVER_ADDR, "S", self.snode, blocking=False)
            self.ssock.send_hook = self._maybe_sockerr
            th = self.server_thread = server_mod.UdpServerThread(self.ssock, ctxt)
            self.net.bind(SERVER_ADDR, "S", self.snode, self._bare_rx)
            if late:
                configure()
            th.start()
        elif entry == "twisted":
            ts = self.tserver = twisted_mod.TwistedServer(ctxt, SERVER_ADDR, install_signals=False)
            w = self

            class Transport:
                def write(self_t, datagram, addr):
                    w._maybe_sockerr(addr)
                    w.net.send(SERVER_ADDR, tuple(addr[:2]), bytes(datagram))
            ts.transport = Transport()
            self.server_thread = ts.thread
            self.net.bind(SERVER_ADDR, "S", self.snode, lambda data, src: ts.datagramReceived(data, src))
            if late:
                configure()
            ts.thread.start()
        elif entry == "udpserver":
            us = self.userver = server_mod._UdpServer(ctxt, SERVER_ADDR)
            if late:
                configure()
            self.recv_thread = k.spawn("S-recv", self.snode, us.run)
            self.server_thread = None     # known once us.run() has created it
        else:
            raise HarnessError("entry?")
        k.cur_node = None

    def _maybe_sockerr(self, addr):
        for t0, t1, a in self.sockerrs:
            if t0 <= self.k.now < t1 and tuple(addr[:2]) == a:
                self.probe("server_sendto_error_injected")
                import errno
                raise OSError(errno.ENOBUFS, "No buffer space available (injected)")

    def _bare_rx(self, data, src):
        # what the repository's own tests do between socket and loop
        try:
            hdr = PacketHeader.from_bytes(True, data)
        except Exception:               # noqa
            return
        self.server_thread.append(src, hdr, data)

    def loop_thread(self):
        th = self.server_thread
        if th is None and self.userver is not None:
            th = self.server_thread = getattr(self.userver, "thread", None)
        return getattr(th, "_sim", None) if th is not None else None

    def run(self):
        if World.current is not None:
            raise HarnessError("nested World")
        World.current = self
        k = self.k
        try:
            with self.seams:
                for m in self.monitors:
                    m.attach(self)
                self._install_probes()
                self.net.taps.extend(m.on_wire for m in self.monitors if type(m).on_wire is not Monitor.on_wire)
                self._build_server()
                for i, cc in enumerate(self.cfg["clients"]):
                    self.clients.append(ClientNode(self, i, cc))
                for op in self.plan:
                    who = op.get("who") or ("S" if op["op"] in SERVER_OPS or "c" not in op else "c%d" % op["c"])
                    if op["op"] == "shutdown":
                        k.at(op["t"], self.snode, self.op_shutdown, op, tag="reactor")
                    elif op["op"] == "hraise":
                        self.handler.raise_at[(op["event"], op["nth"])] = True
                    elif op["op"] == "hgreet":
                        self.handler.on_connect_sends.append(op)
                    elif op["op"] == "sockerr":
                        self.sockerrs.append((op["t"], op["t"] + op["d"], client_addr(op["c"])))
                    elif op["op"] == "hkick":
                        self.handler.kick_at[(op["event"], op["nth"])] = (op["c"], bool(op.get("shutdown")))
                    elif op["op"] == "hstall":
                        self.handler.stall_at[op["nth"]] = op["d"]
                    elif op["op"] in self.custom_ops and op.get("global"):
                        k.at(op["t"], None, self.custom_ops[op["op"]], self, None, op)
                    elif who == "S":
                        self.handler.ops.append(op)
                    else:
                        self.clients[int(who[1:])].ops.append(op)
                for cn in self.clients:
                    cn.start()
                for fn in self.after_build:
                    fn(self)
                try:
                    k.run(until=self.end_time)
                    for m in self.monitors:
                        m.at_end()
                finally:
                    self.stopped = True
                    lt = self.loop_thread()
                    self.loop_done = bool(lt is not None and lt.done)     # before the teardown aborts it
                    for t in k.threads:
                        if t.exc is not None:
                            self.thread_exits.append((t.name, type(t.exc).__name__, str(t.exc)[:200]))
                    k.shutdown()
        finally:
            World.current = None
        if self.harness_exc is not None:
            raise HarnessError("exception inside a monitor hook: " + self.harness_exc)
        return self

    # summary used in evidence / digests
    def summary(self):
        return {
            "digest": self.k.digest(), "events": self.k.nevents, "sim_s": round(self.k.now, 3),
            "wire": self.net.nwire, "sends": len(self.sends), "delivs": len(self.delivs),
            "faults": dict(self.decider.counts), "probes": dict(self.probes),
            "violations": self.violations[:8], "nviol": len(self.violations),
            "excs": len(self.excs),
        }
