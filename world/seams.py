"""Install / remove every seam between mpgameserver and the outside world.

All seams are module or class attributes set from outside; nothing in /repo is edited.
"""
import sys
import logging
import random
import threading
import time as real_time
import os as real_os
import select as real_select
import socket as real_socket

from simkit.kernel import FakeTime, SimLock, SimCondition, HarnessError
from simkit.net import SimSocket, SelectShim, khash

import world  # noqa: F401  (puts VERIF_REPO on sys.path)
import mpgameserver.connection as conn_mod
import mpgameserver.server as server_mod
import mpgameserver.client as client_mod
import mpgameserver.context as context_mod
import mpgameserver.crypto as crypto_mod
import mpgameserver.twisted as twisted_mod
import mpgameserver.http_server as http_mod
from cryptography.hazmat.primitives.asymmetric import ec as real_ec

P256_ORDER = 0xFFFFFFFF00000000FFFFFFFFFFFFFFFFBCE6FAADA7179E84F3B9CAC2FC632551


class OsShim:
    """`os` with a simulator-owned urandom. One shim per patched module (label)."""

    def __init__(self, seams, label):
        self._seams = seams
        self._label = label

    def __getattr__(self, name):
        return getattr(real_os, name)

    def urandom(self, n):
        return self._seams.urandom(n, self._label)


class EcShim:
    """`cryptography...asymmetric.ec` with RFC 6979 deterministic ECDSA nonces."""

    def __getattr__(self, name):
        return getattr(real_ec, name)

    @staticmethod
    def ECDSA(algorithm, *a, **kw):
        return real_ec.ECDSA(algorithm, deterministic_signing=True)


class SocketShim:
    """`socket` module for mpgameserver.server._UdpServer.run."""

    def __init__(self, seams):
        self._seams = seams

    def __getattr__(self, name):
        return getattr(real_socket, name)

    def socket(self, family=None, kind=None, *a):
        return self._seams.make_server_socket()


class FakeReactor:
    def __init__(self, seams):
        self.seams = seams
        self.k = seams.k
        self.n = 0
        self.stopped = False

    def callFromThread(self, fn, *args, **kw):
        self.n += 1
        lag = self.seams.reactor_lag(self.n)
        self.k.rec("callFromThread", getattr(fn, "__name__", "?"))
        self.k.after(lag, self.seams.reactor_node, self._call, fn, args, kw, tag="reactor")

    def _call(self, fn, args, kw):
        # like the real reactor: an exception in a callFromThread callable is logged, the loop goes on
        try:
            fn(*args, **kw)
        except Exception as e:      # noqa
            self.seams.logged_errors.append((self.k.now, "reactor: unhandled error in %s" % getattr(fn, "__name__", "?"),
                                             type(e).__name__, str(e)[:160]))

    def stop(self):
        self.stopped = True

    def run(self, *a, **kw):
        raise HarnessError("reactor.run must not be called in simulation")

    listenUDP = listenTCP = listenSSL = run


class _BoundServerSocket(SimSocket):
    """SimSocket created unbound by socket.socket(); bind() attaches it to the net."""

    def __init__(self, seams):
        self._seams = seams
        self.k = seams.k
        self.queue = []
        self.closed = False
        self.reader = None
        self.sent = 0
        self.recv_hook = None
        self.fail_next_send = None
        self.send_hook = seams.server_send_hook
        self.blocking = True
        self.net = seams.net
        self.addr = None

    def bind(self, addr):
        self.addr = tuple(addr)
        self.name = self._seams.server_name
        self.node = self._seams.reactor_node
        self.net.bind(self.addr, self.name, self.node, self._on_datagram)


class Seams:
    def __init__(self, kernel, net, seed, mtu=1500, server_name="S", reactor_lag_max=0.0):
        self.k = kernel
        self.net = net
        self.seed = seed
        self.mtu = mtu
        self.server_name = server_name
        self.reactor_node = None
        self.reactor_lag_max = reactor_lag_max
        self.rng = random.Random("urandom|%s" % seed)
        self.keyrng = random.Random("eckeys|%s" % seed)
        self.token_script = []      # forced 4-byte draws for ServerContext.get_token
        self.token_draws = 0
        self.key_script = []        # forced private scalars (edge keys)
        self.ftime = FakeTime(kernel, real_time)
        self._saved = []
        self.server_send_hook = None
        self.wake_lag_max = 0.0
        self.n_wakes = 0
        self.logged_errors = []     # (t, message, exception type, exception text) logged at ERROR by the repo
        self.server_threads = []    # UdpServerThread instances started under simulation
        self.server_sockets = []
        self.reactor = None

    # ---- randomness
    def urandom(self, n, label):
        if label == "context" and n == 4:
            self.token_draws += 1
            if self.token_script:
                return self.token_script.pop(0)
        return self.rng.randbytes(n)

    def new_private_key(self):
        if self.key_script:
            scalar = self.key_script.pop(0)
        else:
            scalar = self.keyrng.randrange(1, P256_ORDER)
        return crypto_mod.EllipticCurvePrivateKey(real_ec.derive_private_key(scalar, real_ec.SECP256R1()))

    def wake_lag(self):
        # how long a notified thread takes to get going again (scheduler latency), a keyed hash per wake-up
        self.n_wakes += 1
        return self.wake_lag_max * khash(self.seed, "wake", self.n_wakes)[0]

    def reactor_lag(self, n):
        if not self.reactor_lag_max:
            return 0.0
        return self.reactor_lag_max * khash(self.seed, "reactor", n)[0]

    def make_server_socket(self):
        s = _BoundServerSocket(self)
        self.server_sockets.append(s)
        return s

    # ---- patching
    def _set(self, obj, name, value):
        self._saved.append((obj, name, obj.__dict__.get(name, _MISSING)))
        setattr(obj, name, value)

    def __enter__(self):
        k = self.k
        ft = self.ftime
        for m in (conn_mod, server_mod, client_mod, http_mod):
            self._set(m, "time", ft)
        self._set(client_mod, "select", SelectShim(real_select))
        self._set(server_mod, "socket", SocketShim(self))
        self._set(server_mod, "Lock", lambda: SimLock(k))
        def mk_condition(lock=None):
            cv = SimCondition(k, lock if lock is not None else SimLock(k))
            if seams_.wake_lag_max:
                cv.wake_lag = seams_.wake_lag
            return cv
        seams_ = self
        self._set(server_mod, "Condition", mk_condition)
        self.reactor = FakeReactor(self)
        self._set(twisted_mod, "reactor", self.reactor)
        self._set(context_mod, "os", OsShim(self, "context"))
        self._set(crypto_mod, "os", OsShim(self, "crypto"))
        self._set(conn_mod, "os", OsShim(self, "connection"))
        self._set(crypto_mod, "ec", EcShim())
        seams = self
        self._set(crypto_mod.EllipticCurvePrivateKey, "new", staticmethod(lambda: seams.new_private_key()))

        UST = server_mod.UdpServerThread

        def start(th):
            seams.server_threads.append(th)
            th._sim = k.spawn("%s-loop%d" % (seams.server_name, len(seams.server_threads)),
                              seams.reactor_node, th.run)

        def join(th, timeout=None):
            bt = getattr(th, "_sim", None)
            if bt is None:
                return
            if k.on_baton():
                raise HarnessError("join from a baton thread is not modelled")
            # the caller (reactor pseudo-thread) is blocked: its events wait
            k.block_tag("reactor")
            k.block_tag("rx:" + seams.server_name)
            try:
                k.run(until=k.now + 3600.0, stop=lambda: bt.done)
            finally:
                k.unblock_tag("reactor")
                k.unblock_tag("rx:" + seams.server_name)
            if not bt.done:
                raise HarnessError("join: server thread never exited")

        def is_alive(th):
            bt = getattr(th, "_sim", None)
            return bool(bt and not bt.done)

        self._set(UST, "start", start)
        self._set(UST, "join", join)
        self._set(UST, "is_alive", is_alive)

        self._install_line_preemption()
        P = conn_mod.Packet
        self._pkt_saved = {n: getattr(P, n) for n in ("MTU", "MAX_SIZE", "MAX_PAYLOAD_SIZE", "MAX_SIZE_CRC",
                                                     "MAX_FRAGMENT_SIZE", "RECV_SIZE")}
        P.setMTU(self.mtu)
        # capture what the repository logs at ERROR (swallowed exceptions); drop the rest cheaply
        lg = logging.getLogger("mpgameserver")
        self._log_saved = (lg.level, lg.propagate, list(lg.handlers), logging.root.manager.disable)
        logging.disable(logging.NOTSET)
        lg.handlers = [_Capture(self)]
        lg.propagate = False
        lg.setLevel(logging.ERROR)
        return self

    def _install_line_preemption(self):
        """Every source line of the functions that run on (or talk to) the server's threads is a pre-emption point
        of a baton thread: sys.monitoring LINE events, local to those code objects (Python >= 3.12)."""
        self._mon_codes = []
        mon = getattr(sys, "monitoring", None)
        if mon is None:
            return
        tool = 4
        try:
            if mon.get_tool(tool) is None:
                mon.use_tool_id(tool, "verif-simkit")
        except Exception:       # noqa
            return
        k = self.k
        mon.register_callback(tool, mon.events.LINE, lambda code, line: k.line_event())
        UST = server_mod.UdpServerThread
        fns = [UST.run, UST.append, UST._wake, UST.send, server_mod._UdpServer.run,
               twisted_mod.TwistedServer.datagramReceived, twisted_mod.TwistedServer.sendPackets,
               twisted_mod.TwistedServer.sendPacketsUnsafe, twisted_mod.TwistedServer.stop]
        for fn in fns:
            code = getattr(fn, "__code__", None)
            if code is not None:
                ev = mon.events.LINE
                if fn in (UST.append, UST._wake):
                    # the producer side of the queue hand-over is tiny: pre-empt it between any two bytecode
                    # instructions, so that even a race inside one statement is within reach
                    ev |= mon.events.INSTRUCTION
                mon.set_local_events(tool, code, ev)
                self._mon_codes.append(code)
        mon.register_callback(tool, mon.events.INSTRUCTION, lambda code, off: k.line_event())
        self._mon_tool = tool

    def _remove_line_preemption(self):
        mon = getattr(sys, "monitoring", None)
        if mon is None or not getattr(self, "_mon_codes", None):
            return
        for code in self._mon_codes:
            mon.set_local_events(self._mon_tool, code, 0)
        mon.register_callback(self._mon_tool, mon.events.LINE, None)
        mon.register_callback(self._mon_tool, mon.events.INSTRUCTION, None)
        try:
            mon.free_tool_id(self._mon_tool)
        except Exception:       # noqa
            pass
        self._mon_codes = []

    def __exit__(self, *exc):
        self._remove_line_preemption()
        lg = logging.getLogger("mpgameserver")
        lg.setLevel(self._log_saved[0])
        lg.propagate = self._log_saved[1]
        lg.handlers = self._log_saved[2]
        logging.disable(self._log_saved[3])
        for n, v in self._pkt_saved.items():
            setattr(conn_mod.Packet, n, v)
        for obj, name, old in reversed(self._saved):
            if old is _MISSING:
                try:
                    delattr(obj, name)
                except AttributeError:
                    pass
            else:
                setattr(obj, name, old)
        self._saved = []
        return False


_MISSING = object()


class _Capture(logging.Handler):
    def __init__(self, seams):
        super().__init__(logging.ERROR)
        self.seams = seams

    def emit(self, record):
        ei = record.exc_info
        try:
            msg = record.getMessage()
        except Exception:       # noqa
            msg = str(record.msg)
        self.seams.logged_errors.append((self.seams.k.now, msg[:160], type(ei[1]).__name__ if ei and ei[1] else None,
                                         str(ei[1])[:160] if ei and ei[1] else None))
