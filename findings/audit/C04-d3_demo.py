"""
d3 (C04): a guaranteed message that is retried after more than 32767 newer
MESSAGES (but only ~170 DATAGRAMS) is taken for a brand new message and delivered
a second time; the receiver's duplicate window is reset on top of that.

Message sequence numbers are 16 bit like datagram sequence numbers, but up to 255
messages travel in one datagram, so the message sequence space wraps up to 255
times faster. RetrySender re-queues a timed out message with its ORIGINAL message
sequence number at the END of outgoing_messages. If more than 32767 messages were
numbered in the meantime, SeqNum.diff() in BitField.insert() comes out negative:
the retry looks *newer* than everything received, is accepted, current_seqnum
jumps back to it and the 256 bit history is cleared.

This one is independent of d1: a check "older than the 256 message window ->
drop" in _recv_message() would not help, because the retry is not classified as
older at all.

Scenario: the client sends one message with RETRY_ON_TIMEOUT followed by a burst
of 40000 one byte messages (RetryMode.NONE; 239 fit in a datagram, ~2.8 seconds
of traffic). The first datagram (with the guaranteed message) arrives and the
message is delivered. Its ack is lost (server->client datagrams are lost for
0.7s), and so are the datagrams that carry the early 100ms re-sends of the
message. After the 1s ack timeout the message is queued again behind the burst
and is sent ~170 datagrams after the original.

run: PYTHONPATH=/tmp/aud/B /venv/bin/python d3_demo.py
"""
import sys, time, heapq, itertools, struct, collections
import mpgameserver.connection as C
from mpgameserver.connection import (ClientServerConnection, ServerClientConnection,
    PacketHeader, ConnectionStatus, RetryMode)
from mpgameserver.context import ServerContext
from mpgameserver.handler import EventHandler


class Sim(object):
    """A real ClientServerConnection and a real ServerClientConnection, driven the
    way UdpClient.update() / UdpServerThread.run() drive them, with one fake clock
    (anchored at time.time()) and a scriptable network in between.

    policy(src, pkt, t) -> list of one-way delays for the datagram just emitted by
    `src` ("client"/"server"); [] = lost, two entries = duplicated.
    """
    TICK = 1/60 + 1e-6

    def __init__(self):
        self.t = time.time()
        sim = self
        # FragmentReceiver.expired() reads time.time() directly
        C.time = type("FakeTime", (), {"time": staticmethod(lambda: sim.t)})
        self.ctxt = ServerContext(EventHandler(), None)
        self.client = ClientServerConnection(("10.0.0.1", 4000))
        self.server = ServerClientConnection(self.ctxt, ("10.0.0.2", 5000))
        self.client.clock = self.server.clock = lambda: sim.t
        self.ctxt.temp_connections[self.server.addr] = self.server
        self.net, self.n = [], itertools.count()
        self.delivered = {"client": [], "server": []}   # what the application is handed
        self.policy = lambda src, pkt, t: [0.0]
        self.client._sendClientHello()
        for i in range(10):
            self.step()
        assert self.client.status == ConnectionStatus.CONNECTED
        assert self.server.status == ConnectionStatus.CONNECTED
        self.t0 = self.t

    def emit(self, src, pkt, datagram):
        dest = "server" if src == "client" else "client"
        for delay in self.policy(src, pkt, self.t):
            heapq.heappush(self.net, (self.t + delay, next(self.n), dest, datagram))

    def step(self):
        self.t += self.TICK
        while self.net and self.net[0][0] <= self.t:
            _, _, dest, d = heapq.heappop(self.net)
            conn = getattr(self, dest)
            conn._recv_datagram(PacketHeader.from_bytes(dest == "server", d), d)
            self.delivered[dest].extend(m for _, m in conn.incoming_messages)
            conn.incoming_messages = []
        # client: same calls as UdpClient.update()
        self.client.update()
        if self.t - self.client.last_send_time > self.client.send_interval:
            pkt = self.client._build_packet()
            if pkt is not None:
                self.emit("client", pkt, self.client._encode_packet(pkt))
            self.client._check_timeout(self.t)
        # server: same calls as UdpServerThread.run()/send()
        r = self.server.update()
        if r:
            pkt, key, addr = r
            self.emit("server", pkt, pkt.to_bytes(key))

M = b"GUARANTEED-MESSAGE"

def main():
    sim = Sim()
    sent = {"client": 0}

    def policy(src, pkt, t):
        if src == "server":
            # the acks of the first 0.7 seconds are lost
            return [] if t - sim.t0 < 0.7 else [0.010]
        sent["client"] += 1
        carries_M = any(m.payload == M for m in pkt.msgs)
        if carries_M and sent["client"] > 1 and t - sim.t0 < 2.0:
            return []   # the early re-sends of M are lost (the original arrived)
        return [0.010]
    sim.policy = policy

    sim.client.send(M, retry=RetryMode.RETRY_ON_TIMEOUT)
    first_seq = int(sim.client.seq_message)
    for i in range(40000):
        sim.client.send(b"x")

    datagrams_before = int(sim.client.seq_sending)
    newest = []
    for i in range(60 * 5):
        sim.step()
        newest.append(int(sim.server.bitfield_msg.current_seqnum))
    datagrams = int(sim.client.seq_sending) - datagrams_before

    assert sim.client.status == ConnectionStatus.CONNECTED
    assert sim.server.status == ConnectionStatus.CONNECTED

    n = sim.delivered["server"].count(M)
    print("client sent %d datagrams in total; message seq of M: %d; newest message seq "
          "seen by the server: max %d, at the end %d" % (datagrams, first_seq, max(newest), newest[-1]))
    print("server application received M %d time(s)" % n)
    assert datagrams < 32767
    assert n == 1, "C04 violated: the guaranteed message was handed to the application %d times" % n

if __name__ == '__main__':
    main()
