"""C08 - sequence-number ring and receive-window bookkeeping are exact."""
import collections

from checks.common import UdpCheck, Monitor
from checks.c04 import gen_dups, install_stream
from world.attacker import Attacker
from world.udpworld import conn_mod, accepted
from world import refmodel as R

WIDTHS = (8, 16, 64, 128, 256)
# offsets at which ring arithmetic has its edges; applied to every distinct sequence value a history produces
EDGE_OFFSETS = (1, -1, 31, 32, 33, -32, -33, 255, 256, 257, -256, -257, 32766, 32767, -32766, -32767)


class WindowMonitor(Monitor):
    """Mirrors every BitField the protocol uses with a set-based reference model, feeds the same
    network-generated arrival histories to shadow BitFields of other widths, and checks SeqNum
    arithmetic against plain modular arithmetic on every pair of values the history relates."""
    wants_build = True
    wants_recv = True
    wants_msg = True
    wants_app = True

    def pre_recv(self, conn, hdr, datagram):
        self.cur_msgs = []
        return {"key": conn.session_key_bytes}

    # message level, independent of the BitField calls: an application message that was never received before (whole
    # history, not only the window) has to reach the application path; one received before and still inside the window
    # has to be refused. (Received before AND older than the window: the structure cannot tell - not judged here.)
    def on_recv_message(self, conn, typ, msgseq, payload, dup):
        k = id(conn)
        hist = self.msg_hist.get(k)
        if hist is None:
            hist = self.msg_hist[k] = (set(), R.WindowModel(256))
            self._refs.append(conn)
        s = int(msgseq)
        ever, wm = hist
        cls = "new" if s not in ever else wm.classify(s)
        if s in ever and cls == "new":
            cls = "old"             # seen long ago; the ring has moved on by more than half - cannot tell
        if typ.value == 6:          # APP: its way into the application path is observable
            self.cur_msgs.append([k, s, cls, False])
        ever.add(s)
        if len(ever) > 40000:       # the 16-bit ring comes round: forget the far past
            ever.clear()
            self.msg_hist[k] = (ever, wm)
        wm.insert(s)

    def on_recv_app(self, conn, msgseq, payload):
        # _recvApp runs inside the _recv_message call of that very message: it is the entry appended last (one datagram may
        # carry the same message twice - a resend next to a keep-alive copy - so matching by number alone is not enough)
        if self.cur_msgs:
            e = self.cur_msgs[-1]
            if e[0] == id(conn) and e[1] == int(msgseq) and not e[3]:
                e[3] = True

    def post_recv(self, conn, hdr, datagram, pre, result):
        # an independent view of "received": a datagram that opens under the connection's key (reference AES-GCM) and is
        # neither inside the window already nor older than it WAS received - the endpoint has to take it, whatever the
        # distance to the newest one (up to half the ring); one that is inside the window already has to be refused
        key = (pre or {}).get("key")
        got = accepted(result)
        for k, s_, cls, reached in self.cur_msgs:
            self.outcomes["msg:%s:%s" % (cls, "taken" if reached else "refused")] += 1
            if cls == "new" and not reached and result is True:
                self.w.violation("message_never_received_before_was_discarded", {"conn": self.w.conn_name(conn), "msgseq": s_,
                                                                                 "newest": self.msg_hist[k][1].newest},
                                 key="message")
            elif cls == "dup" and reached:
                self.w.violation("duplicate_inside_window_not_flagged", {"conn": self.w.conn_name(conn), "msgseq": s_, "level": "message"},
                                 key="message")
        self.cur_msgs = []
        if key and len(datagram) >= R.HDR + R.TAG:
            h = R.dec_header(bytes(datagram[:R.HDR]))
            if len(datagram) == R.HDR + h["length"] + R.TAG and R.open_gcm(key, bytes(datagram)) is not None:
                rm = self.accepted_models.get(id(conn))
                cls = rm.classify(h["seq"]) if rm is not None else "new"
                self.outcomes["rx:%s:%s" % (cls, "taken" if got else "refused")] += 1
                if cls == "new" and rm is not None and rm.newest and R.ring_diff(h["seq"], rm.newest) > 32:
                    self.outcomes["rx:new:more-than-32-ahead"] += 1
                if cls == "new" and not got:
                    ahead = R.ring_diff(h["seq"], rm.newest) if rm is not None and rm.newest else 0
                    self.w.violation("authentic_datagram_newer_than_window_refused",
                                     {"conn": self.w.conn_name(conn), "seq": h["seq"], "newest": rm.newest if rm else 0, "ahead": ahead,
                                      "result": str(result)},
                                     key="ahead>32" if ahead > 32 else "inside-window-gap" if ahead < 0 else "ahead<=32")
                elif cls == "dup" and got:
                    self.w.violation("duplicate_inside_window_not_flagged", {"conn": self.w.conn_name(conn), "seq": h["seq"], "level": "datagram"},
                                     key="datagram")
            elif got:
                # it entered the window (and from now on the ack fields name it) although the peer never sent it
                self.w.violation("window_records_datagram_the_peer_never_sent",
                                 {"conn": self.w.conn_name(conn), "seq": h["seq"], "type": h["type"], "len": len(datagram)},
                                 key="type=%d" % h["type"])
        # the set of datagrams this endpoint ACCEPTED (authenticated, not duplicate, not stale) - kept independently
        # of the BitField calls, so that "the ack fields name exactly the datagrams received" is judged against what
        # was really received, not against whatever was inserted into the window
        if result is True or (isinstance(result, str) and result.startswith("raised")):
            m = self.accepted_models.get(id(conn))
            if m is None:
                m = self.accepted_models[id(conn)] = R.WindowModel(32)
                self._refs.append(conn)
            m.insert(int(hdr.seq))

    def attach(self, world):
        self.w = world
        self.accepted_models = {}  # id(conn) -> WindowModel(32) of accepted datagrams
        self.msg_hist = {}         # id(conn) -> (every message seq ever seen, WindowModel(256))
        self.cur_msgs = []
        self.models = {}          # id(BitField) -> WindowModel
        self.shadows = {}         # id(BitField) -> [(BitField(w), WindowModel(w))]
        self._refs = []
        self.inserts = 0
        self.pairs = 0
        self.max_offset = 0
        self.values = set()
        self.last_seq = {}        # conn name -> last datagram seq emitted
        self.outcomes = collections.Counter()
        BF = conn_mod.BitField
        SeqNum = conn_mod.SeqNum
        DuplicationError = conn_mod.DuplicationError
        orig = BF.insert
        mon = self
        w = world

        def check_state(bf, model, what):
            if int(bf.current_seqnum) != model.newest or bf.bits != model.bits():
                w.violation("window_state_differs_from_set_model",
                            {"nbits": bf.nbits, "newest": int(bf.current_seqnum), "model_newest": model.newest,
                             "bits": hex(bf.bits), "model_bits": hex(model.bits()), "after": what},
                            key="nbits=%d" % bf.nbits)
                return False
            return True

        def seq_arith(a, b):
            """a, b: SeqNum. every operator against modular arithmetic."""
            ia, ib = int(a), int(b)
            if ia == 0 or ib == 0:
                return
            mon.pairs += 1
            d = R.ring_diff(ia, ib)
            mon.max_offset = max(mon.max_offset, abs(d))
            bad = None
            if a.diff(b) != d:
                bad = ("diff", a.diff(b), d)
            elif abs(d) <= 32767 and a.newer_than(b) != (d > 0):
                bad = ("newer_than", a.newer_than(b), d > 0)
            elif abs(d) <= 32767 and d != 0 and ((a > b) != (d > 0) or (a < b) != (d < 0)):
                bad = ("lt/gt", (a > b, a < b), d)
            elif abs(d) <= 32767 and ((a >= b) != (d >= 0) or (a <= b) != (d <= 0)):
                bad = ("le/ge", (a >= b, a <= b), d)
            elif int(a + 1) != R.ring_add(ia, 1) or int(a - 1) != R.ring_add(ia, -1) or int(a + 1) == 0 or int(a - 1) == 0:
                bad = ("+/-1", (int(a + 1), int(a - 1)), (R.ring_add(ia, 1), R.ring_add(ia, -1)))
            elif 0 < abs(d) < 1000 and int(b + d) != ia:
                bad = ("b+diff", int(b + d), ia)
            if bad:
                w.violation("seqnum_arithmetic_wrong", {"a": ia, "b": ib, "op": bad[0], "got": bad[1], "expected": bad[2]},
                            key=bad[0])

        def insert(bf, seqnum):
            k = id(bf)
            model = mon.models.get(k)
            if model is None:
                if bf.current_seqnum != 0 or bf.bits:
                    return orig(bf, seqnum)          # a BitField not created empty by the protocol (not ours)
                model = mon.models[k] = R.WindowModel(bf.nbits)
                mon._refs.append(bf)
                # nothing was received yet: nothing may be reported as contained (ring edges included)
                for probe in (int(seqnum), 1, 65535, 32768):
                    if bf.contains(SeqNum(probe)):
                        w.violation("contains_true_on_empty_window", {"nbits": bf.nbits, "seq": probe}, key="seq=%d" % probe)
                if bf.nbits == 32:
                    mon.shadows[k] = [(BF(wd), R.WindowModel(wd)) for wd in WIDTHS]
            mon.inserts += 1
            s = int(seqnum)
            if s not in mon.values and s != 0:
                a_ = seqnum if isinstance(seqnum, SeqNum) else SeqNum(s)
                for off in EDGE_OFFSETS:
                    seq_arith(a_, SeqNum(R.ring_add(s, off)))
            mon.values.add(s)
            if bf.current_seqnum != 0:
                seq_arith(bf.current_seqnum, seqnum if isinstance(seqnum, SeqNum) else SeqNum(s))
            expect = model.classify(s)
            mon.outcomes["%d:%s" % (bf.nbits, expect)] += 1
            contains_before = bf.contains(seqnum) if bf.current_seqnum != 0 else False
            if contains_before != (expect == "dup"):
                w.violation("contains_disagrees_with_set_model", {"nbits": bf.nbits, "seq": s, "newest": model.newest,
                                                                  "contains": contains_before, "model": expect},
                            key="nbits=%d:%s" % (bf.nbits, expect))
            raised = False
            try:
                orig(bf, seqnum)
            except DuplicationError:
                raised = True
                if expect != "dup":
                    w.violation("flagged_duplicate_but_never_received", {"nbits": bf.nbits, "seq": s, "newest": model.newest, "model": expect},
                                key="nbits=%d:%s" % (bf.nbits, expect))
                raise
            finally:
                if not raised and expect == "dup":
                    w.violation("duplicate_inside_window_not_flagged", {"nbits": bf.nbits, "seq": s, "newest": model.newest},
                                key="nbits=%d" % bf.nbits)
                in_order = expect == "new" and (model.newest == 0 or R.ring_diff(s, model.newest) == 1)
                model.insert(s)
                # the full state comparison costs O(width): always after anything interesting, every 16th time otherwise
                full = not in_order or mon.inserts % 16 == 0
                if full:
                    check_state(bf, model, "insert %d (%s)" % (s, expect))
                for sbf, sm in mon.shadows.get(k, ()):
                    e2 = sm.classify(s)
                    r2 = False
                    try:
                        orig(sbf, seqnum)
                    except DuplicationError:
                        r2 = True
                    if r2 != (e2 == "dup"):
                        w.violation("shadow_window_duplicate_flag_wrong", {"nbits": sbf.nbits, "seq": s, "model": e2, "raised": r2},
                                    key="nbits=%d" % sbf.nbits)
                    sm.insert(s)
                    if full:
                        check_state(sbf, sm, "shadow insert %d (%s)" % (s, e2))
        world.seams._set(BF, "insert", insert)

    # every emitted header: ack fields name exactly what was received among the newest 32, seq advances on the ring
    def on_build(self, conn, pkt, pre=None):
        w = self.w
        h = pkt.hdr
        cn = w.conn_name(conn)
        model = self.accepted_models.get(id(conn))
        newest, bits = (model.newest, model.bits()) if model is not None else (0, 0)
        if int(h.ack) != newest or h.ack_bits != bits:
            w.violation("emitted_ack_fields_differ_from_received_set",
                        {"conn": cn, "ack": int(h.ack), "model_ack": newest, "ack_bits": hex(h.ack_bits), "model_bits": hex(bits)},
                        key="ack" if int(h.ack) != newest else "bits")
        s = int(h.seq)
        prev = self.last_seq.get(cn, 0)
        if s == 0 or s != R.ring_add(prev, 1):
            w.violation("datagram_seq_does_not_advance_on_the_ring", {"conn": cn, "prev": prev, "seq": s}, key="zero" if s == 0 else "step")
        if prev == 65535 and s == 1:
            w.probe("seq_wrap_65535_to_1_observed")
        self.last_seq[cn] = s
        for m in pkt.msgs:
            if int(m.seq) == 0:
                w.violation("message_seq_zero", {"conn": cn}, key="")


class C08(UdpCheck):
    pid = "C08"
    budget = {"quick": 80, "thorough": 900}
    ncases = {"quick": 200, "thorough": 20000}
    per_run_wall_s = 400
    chunk = 1
    shrink_s = 60
    rule = ("case = the adversarial duplication/reordering/replay worlds of C04 (incl. runs that send > 65535 datagrams per "
            "direction); every BitField the protocol creates is mirrored by a set-based reference model (newest + set of "
            "received seqs) and, for the datagram window, by shadow BitFields of widths 8,16,64,128,256 fed the same arrival "
            "history; after every insertion: duplicate flag <=> model, contains() <=> model, (newest,bits) == model; every "
            "emitted header's (ack, ack_bits) == model of the datagrams that connection accepted; every SeqNum operator "
            "(+,-,diff,newer_than,<,>) == modular arithmetic on each pair the history relates.  non-trivial = at least one "
            "out-of-order or duplicate insertion happened; distinct = event-order digest")

    def gen(self, rng, tier, i):
        wrap = (i < 1) if tier == "quick" else (i % 500 < 2)
        case = gen_dups(rng, i, tier, wrap=wrap)
        if not wrap:
            # datagrams that parse as a header but are not authentic must not show up in the ack fields
            cfg, plan = case["cfg"], case["plan"]
            n = len(cfg["clients"])
            for j in range(rng.choice([0, 4, 12])):
                c = rng.randrange(n)
                frm, to = rng.choice([("c%d" % c, "S"), ("S", "c%d" % c)])
                t = round(1.0 + rng.random() * (cfg["duration"] - 2.0), 3)
                r = rng.random()
                if r < 0.35:
                    plan.append({"op": "garbage", "global": True, "t": t, "frm": frm, "to": to, "kind": "header", "n": j})
                elif r < 0.65:
                    # CRC-only datagram of any type with a fresh sequence number far ahead of / inside the window
                    plan.append({"op": "forge", "global": True, "t": t, "frm": frm, "to": to, "type": rng.choice([1, 2, 3, 4, 6]),
                                 "inner": rng.choice([[6], [4], [2], [1], [6, 6]]), "seq_off": rng.choice([1, 2, 20, 40, 5000])})
                else:
                    plan.append({"op": "mutate", "global": True, "t": t, "link": "%s>%s" % (frm, to), "how": "flip",
                                 "bit": 160 + rng.randrange(64), "back": rng.choice([0, 0, 1])})
        return case

    def monitors(self, case):
        self.mon = WindowMonitor()
        return [self.mon]

    def prepare(self, w, case):
        Attacker(w, keep=6000)
        w.after_build.append(lambda w_: install_stream(w_, case))

    def nontrivial(self, w, case):
        o = self.mon.outcomes
        return any(v for k, v in o.items() if k.endswith(":dup") or k.endswith(":old")) or self.mon.max_offset > 1

    def judge(self, w, case):
        mon = self.mon
        w.probes["window_insertions_checked"] += mon.inserts
        w.probes["seqnum_pairs_checked"] += mon.pairs
        for k, v in mon.outcomes.items():
            w.probes["insert_" + k] += v
        w.maxima["ring_offset_between_compared_seqs"] = mon.max_offset
        w.maxima["distinct_seq_values_in_one_run"] = len(mon.values)
        return []

    def sample(self, w, case):
        s = super().sample(w, case)
        s["insertions"] = self.mon.inserts
        s["outcomes"] = dict(self.mon.outcomes)
        s["max_offset"] = self.mon.max_offset
        return s

    def extra_coverage(self, ok):
        return {"note": "the for-all-pairs SeqNum claim is a pure function; only pairs produced by simulated histories are checked "
                        "(see probes seqnum_pairs_checked / max_ring_offset_between_compared_seqs)"}


CHECK = C08()
