"""
C12 - an idle link over a perfect network is declared DROPPED by the client when
the server is configured with a keep alive interval of 5 s or more, although
keep-alive < connection timeout holds for every configured value.

ServerContext.setKeepAliveInterval / setConnectionTimeout accept any value and
the server honours them (one keep alive every 6 s, client timeout 30 s below).
The client side of the silence detection is not configurable: 
ClientServerConnection.update() hard codes
    if self.last_recv_time > 0 and t0 > self.last_recv_time + 5: DROPPED
so the client gives up between two perfectly on-time server keep alives, stops
sending, and the server then times the client out as well.

Real UdpClient / ServerClientConnection, injected clock, in-memory socket.

run: PYTHONPATH=/tmp/aud/E /venv/bin/python d5_demo.py
"""
import time
import logging

import mpgameserver.client as client_module
from mpgameserver.client import UdpClient
from mpgameserver.context import ServerContext
from mpgameserver.handler import EventHandler
from mpgameserver.connection import ServerClientConnection, PacketHeader, \
    PacketType, ConnectionStatus

logging.disable(logging.CRITICAL)

now = [time.time()]
clock = lambda: now[0]
START = now[0]

class FakeSocket(object):
    def __init__(self):
        self.rx = []
        self.tx = []
    def recvfrom(self, size):
        return self.rx.pop(0), ("server", 1)
    def sendto(self, datagram, addr):
        self.tx.append(datagram)
    def close(self):
        pass

class FakeSelect(object):
    @staticmethod
    def select(r, w, x, timeout=None):
        return [s for s in r if s.rx], list(w), []

client_module.select = FakeSelect

class Client(UdpClient):
    def _make_socket(self, addr):
        return FakeSocket()

events = []
class Handler(EventHandler):
    def connect(self, client):
        events.append(("connect", round(now[0] - START, 2)))
    def disconnect(self, client):
        events.append(("disconnect", round(now[0] - START, 2)))

# settings made on the context before the server starts
ctxt = ServerContext(Handler())
ctxt.setKeepAliveInterval(6.0)
ctxt.setConnectionTimeout(30.0)        # keep alive (6 s) < connection timeout (30 s)
CADDR = ("192.0.2.1", 5000)

server_emitted = []

def server_tick(datagrams):
    # same steps as UdpServerThread.run
    out = []
    for datagram in datagrams:
        hdr = PacketHeader.from_bytes(True, datagram)
        if CADDR in ctxt.connections:
            ctxt.connections[CADDR]._recv_datagram(hdr, datagram)
        elif CADDR in ctxt.temp_connections:
            if hdr.pkt_type == PacketType.CHALLENGE_RESP:
                ctxt.temp_connections[CADDR]._recv_datagram(hdr, datagram)
        elif hdr.pkt_type == PacketType.CLIENT_HELLO:
            conn = ServerClientConnection(ctxt, CADDR)
            conn.clock = clock
            conn.send_keep_alive_interval = ctxt.keep_alive_interval
            conn.outgoing_timeout = ctxt.outgoing_timeout
            ctxt.temp_connections[CADDR] = conn
            conn._recv_datagram(hdr, datagram)
    for conn in list(ctxt.connections.values()):
        if conn.status == ConnectionStatus.DISCONNECTED or conn.timedout(ctxt.connection_timeout):
            ctxt.onDisconnect(conn)
            del ctxt.connections[conn.addr]
        else:
            msg = conn.update()
            if msg:
                out.append(msg[0].to_bytes(msg[1]))
    for conn in list(ctxt.temp_connections.values()):
        msg = conn.update()
        if msg:
            out.append(msg[0].to_bytes(msg[1]))
    if out:
        server_emitted.append(round(now[0] - START, 2))
    return out

client = Client()
client.setKeepAliveInterval(1.0)       # client keep alive (1 s) < server timeout (30 s)
client.connect(("server", 1))
client.conn.clock = clock
client.conn.time_client_hello_sent = clock()

TICK = 1 / 60
first_bad = None
while now[0] - START < 60.0:
    now[0] += TICK
    client.update()                                   # 60 updates per second
    sent, client.sock.tx[:] = list(client.sock.tx), []
    client.sock.rx.extend(server_tick(sent))          # no loss, no delay
    if now[0] - START > 1.0 and first_bad is None:
        if client.status() != ConnectionStatus.CONNECTED or CADDR not in ctxt.connections:
            first_bad = (round(now[0] - START, 2), client.status(), CADDR in ctxt.connections)

print("server datagrams emitted at : %s" % server_emitted[:8])
print("handler events              : %s" % events)
print("client status after 60 s    : %s" % client.status())

gaps = [b - a for a, b in zip(server_emitted[1:], server_emitted[2:])]
assert all(g <= 6.0 + 2 * TICK for g in gaps), gaps     # the server kept its side of the bargain
assert first_bad is None, \
    "idle link over a working network went down at t=%.2f s: client status %s, server still has the client: %s" % first_bad
print("ok")
