"""Small executable reference models, written from the documented wire format only.

Nothing here imports mpgameserver: these are the independent side of every comparison.
"""
import struct
import binascii

from cryptography.hazmat.primitives.ciphers.aead import AESGCM
from cryptography.exceptions import InvalidTag

HDR = 20
TAG = 16
CRC = 4
MAGIC_TO_SERVER = b"FSOS"
MAGIC_TO_CLIENT = b"FSOC"
T_UNKNOWN, T_CLIENT_HELLO, T_SERVER_HELLO, T_CHALLENGE_RESP, T_KEEP_ALIVE, T_DISCONNECT, T_APP, T_APP_FRAGMENT = range(8)
TYPE_NAMES = ["UNKNOWN", "CLIENT_HELLO", "SERVER_HELLO", "CHALLENGE_RESP", "KEEP_ALIVE", "DISCONNECT", "APP", "APP_FRAGMENT"]
RING = 65535


def enc_header(to_client, ctime, seq, ack, typ, length, count, ack_bits):
    return struct.pack(">4sLHHBHBL", MAGIC_TO_CLIENT if to_client else MAGIC_TO_SERVER,
                       ctime & 0xFFFFFFFF, seq, ack, typ, length, count, ack_bits & 0xFFFFFFFF)


def dec_header(d):
    magic, ctime, seq, ack, typ, length, count, bits = struct.unpack(">4sLHHBHBL", d[:HDR])
    return {"to_client": magic == MAGIC_TO_CLIENT, "magic": magic, "ctime": ctime, "seq": seq, "ack": ack,
            "type": typ, "length": length, "count": count, "ack_bits": bits}


def enc_payload(msgs):
    """msgs: list of (msgseq, type, payload)."""
    if not msgs:
        return b""
    if len(msgs) == 1:
        return struct.pack(">H", msgs[0][0]) + msgs[0][2]
    return b"".join(struct.pack(">HHB", len(p), s, t) + p for s, t, p in msgs)


def dec_payload(hdr, body):
    n = hdr["count"]
    if n == 0:
        return []
    if n == 1:
        (s,) = struct.unpack(">H", body[:2])
        return [(s, hdr["type"], body[2:])]
    out = []
    off = 0
    for _ in range(n):
        ln, s, t = struct.unpack(">HHB", body[off:off + 5])
        out.append((s, t, body[off + 5: off + 5 + ln]))
        off += 5 + ln
    return out


def payload_size(lens):
    n = len(lens)
    if n == 0:
        return 0
    if n == 1:
        return 2 + lens[0]
    return sum(lens) + 5 * n


def seal_crc(hdr_bytes, body):
    d = hdr_bytes + body
    return d + struct.pack(">L", binascii.crc32(d) & 0xFFFFFFFF)


def seal_gcm(key, hdr_bytes, body):
    return hdr_bytes + AESGCM(key).encrypt(hdr_bytes[:12], body, hdr_bytes)


def open_gcm(key, datagram):
    """Returns plaintext body or None. Nonce = first 12 bytes, AAD = whole 20-byte header."""
    if len(datagram) < HDR + TAG:
        return None
    h = dec_header(datagram)
    end = HDR + h["length"] + TAG
    if end > len(datagram):
        return None
    try:
        return AESGCM(key).decrypt(datagram[:12], datagram[HDR:end], datagram[:HDR])
    except InvalidTag:
        return None


def open_crc(datagram):
    if len(datagram) < HDR + CRC:
        return None
    h = dec_header(datagram)
    end = HDR + h["length"]
    if end + CRC > len(datagram):
        return None
    (crc,) = struct.unpack(">L", datagram[end:end + CRC])
    if binascii.crc32(datagram[:end]) & 0xFFFFFFFF != crc:
        return None
    return datagram[HDR:end]


def forge_plain(to_client, typ, seq, ack, ack_bits, msgs, ctime=0, count=None, length=None):
    """CRC-valid plaintext datagram, as an attacker without any key can build."""
    body = enc_payload(msgs)
    h = enc_header(to_client, ctime, seq, ack, typ, len(body) if length is None else length,
                   len(msgs) if count is None else count, ack_bits)
    return seal_crc(h, body)


# ---------------------------------------------------------------- sequence ring
def ring_add(a, n):
    """a in 1..65535 (0 = uninitialised behaves like 'before 1')."""
    r = a + n
    while r < 1:
        r += RING
    while r > RING:
        r -= RING
    return r


def ring_diff(a, b):
    """signed distance a-b on the 65535-ring, in (-32767, 32767]."""
    d = a - b
    if d > (RING - 1) // 2:
        d -= RING
    elif d < -((RING - 1) // 2):
        d += RING
    return d


class WindowModel:
    """Set-based model of 'what was received': newest + the set of received seqs."""

    def __init__(self, nbits):
        self.nbits = nbits
        self.newest = 0
        self.seen = set()       # seqs received within the window (excluding newest)

    def bits(self):
        b = 0
        for i in range(self.nbits):
            s = ring_add(self.newest, -(i + 1))
            if s in self.seen:
                b |= 1 << (self.nbits - 1 - i)
        return b

    def classify(self, seq):
        """'new' | 'dup' | 'old' (older than the window: the structure cannot tell)."""
        if self.newest == 0:
            return "new"
        d = ring_diff(self.newest, seq)
        if d == 0:
            return "dup"
        if d < 0:
            return "new"
        if d > self.nbits:
            return "old"
        return "dup" if seq in self.seen else "new"

    def insert(self, seq):
        c = self.classify(seq)
        if c == "dup" or c == "old":
            return c
        if self.newest == 0:
            self.newest = seq
            return c
        d = ring_diff(self.newest, seq)
        if d < 0:
            self.seen.add(self.newest)
            self.newest = seq
            # forget (lazily) what fell out of the window; classify()/bits() only look inside it
            if len(self.seen) > 3 * self.nbits:
                self.seen = {s for s in self.seen if 0 < ring_diff(self.newest, s) <= self.nbits}
        else:
            self.seen.add(seq)
        return c
