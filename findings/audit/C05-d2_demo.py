"""
D2 (C05 / C07): a guaranteed message that (nearly) fills a datagram is never
sent while the application keeps sending one small retried message per frame
and the round trip time is above the 0.1 s resend interval.  No datagram is
lost at all.

run: PYTHONPATH=/tmp/aud/C /venv/bin/python d2_demo.py

Scenario (default MTU / timeouts, real UdpClient <-> ServerClientConnection):

  * one way latency 60 ms in both directions (RTT 120 ms), no loss, no
    duplication, no reordering.
  * the game sends a 16 byte guaranteed message every frame ("player input").
  * after half a second it sends ONE guaranteed message of 1430 bytes
    (<= Packet.MAX_PAYLOAD_SIZE = 1434, i.e. a legal single datagram payload).

What happens (ConnectionBase._build_packet_impl):
  the packet builder first adds every message from pending_retry_msg that is
  due for a resend (sent >= send_keep_alive_interval = 0.1 s ago and not acked
  yet) and only then walks outgoing_messages, taking what still *fits*.
  With an RTT above 0.1 s the small message sent 6 frames ago is due in every
  frame, so `msgs` is never empty when the 1430 byte message is examined:
      1430 + 16 + overhead(2) = 1456  >  max_size = 1436
  it is skipped, the (new) small message behind it is taken instead, and the
  same happens in the next frame, for ever.  The message stays in
  outgoing_messages, is never put into any datagram, and its callback never
  runs - although the connection is open and the network delivers everything.
"""
import logging
import sys
import time as _real_time
import types

logging.disable(logging.CRITICAL)

import mpgameserver.connection as C
import mpgameserver.client as CL
from mpgameserver.connection import Packet, PacketHeader, PacketType, \
    ConnectionStatus, ServerClientConnection, FragmentSender
from mpgameserver.context import ServerContext
from mpgameserver.handler import EventHandler
from mpgameserver.client import UdpClient


# --------------------------------------------------------------------------
# deterministic harness: fake clock (anchored at time.time()), mock socket
class FakeTime(object):
    def __init__(self):
        self.now = self.t0 = _real_time.time()
    def time(self):
        return self.now
    def sleep(self, d):
        self.now += d
    def __getattr__(self, name):
        return getattr(_real_time, name)

class Handler(EventHandler):
    def __init__(self):
        self.received = []
        self.client = None
    def connect(self, client):
        self.client = client
    def handle_message(self, client, seqnum, msg=b''):
        self.received.append(msg)

class MockSock(object):
    def __init__(self, sim):
        self.sim = sim
        self.inbox = []
    def sendto(self, datagram, addr):
        self.sim.net_send('c2s', datagram)
    def recvfrom(self, n):
        return self.inbox.pop(0), self.sim.saddr
    def close(self):
        pass

class Sim(object):
    def __init__(self, dt=0.017):
        self.ft = FakeTime()
        C.time = self.ft      # ConnectionBase.clock and FragmentReceiver.expired()
        CL.time = self.ft
        self.dt = dt
        self.saddr = ('127.0.0.1', 1474)
        self.caddr = ('127.0.0.1', 5555)
        self.handler = Handler()
        self.ctxt = ServerContext(self.handler)
        self.client = UdpClient()
        self.sock = MockSock(self)
        self.client._make_socket = lambda addr: self.sock
        CL.select = types.SimpleNamespace(
            select=lambda r, w, x, t: ([self.sock] if self.sock.inbox else [], [self.sock], []))
        self.inflight = []
        self.order = 0
        self.policy = lambda direction, datagram: [0.0]   # list of delays, [] = lost
        self.server_queue = []
        self.client_received = []

    @property
    def t(self):
        return self.ft.now - self.ft.t0

    def net_send(self, direction, datagram):
        for d in self.policy(direction, datagram):
            self.order += 1
            self.inflight.append((self.ft.now + d, self.order, direction, datagram))

    def deliver(self):
        due = sorted(x for x in self.inflight if x[0] <= self.ft.now)
        self.inflight = [x for x in self.inflight if x[0] > self.ft.now]
        for _, _, direction, datagram in due:
            if direction == 'c2s':
                hdr = PacketHeader.from_bytes(True, datagram)
                self.server_queue.append((self.caddr, hdr, datagram))
            else:
                self.sock.inbox.append(datagram)

    def server_tick(self):
        # the body of UdpServerThread.run for one tick
        ctxt = self.ctxt
        while self.server_queue:
            addr, hdr, datagram = self.server_queue.pop(0)
            if addr in ctxt.connections:
                client = ctxt.connections[addr]
                client._recv_datagram(hdr, datagram)
                for seqnum, msg in client.incoming_messages:
                    ctxt.handler.handle_message(client, seqnum, msg)
                client.incoming_messages = []
            elif addr in ctxt.temp_connections:
                if hdr.pkt_type != PacketType.CHALLENGE_RESP:
                    continue
                ctxt.temp_connections[addr]._recv_datagram(hdr, datagram)
            else:
                if hdr.pkt_type != PacketType.CLIENT_HELLO:
                    continue
                client = ServerClientConnection(ctxt, addr)
                client.send_keep_alive_interval = ctxt.keep_alive_interval
                client.outgoing_timeout = ctxt.outgoing_timeout
                ctxt.temp_connections[addr] = client
                client._recv_datagram(hdr, datagram)
        sending = []
        for client in list(ctxt.connections.values()) + list(ctxt.temp_connections.values()):
            msg = client.update()
            if msg is not None:
                sending.append(msg)
        for pkt, key, addr in sending:
            self.net_send('s2c', pkt.to_bytes(key))

    def step(self, n=1):
        for _ in range(n):
            self.ft.now += self.dt
            self.deliver()
            self.server_tick()
            self.client.update()
            self.client_received.extend(m for _, m in self.client.getMessages())

    def connect(self):
        self.client.connect(self.saddr, None)
        for i in range(30):
            self.step()
        assert self.client.connected() and self.handler.client is not None
        self.sconn = self.handler.client
        self.cconn = self.client.conn

# --------------------------------------------------------------------------


sim = Sim()
sim.connect()
sim.policy = lambda direction, datagram: [0.060]     # 60 ms one way, nothing is lost

small_sent = []
def send_input(i):
    msg = b"input %09d" % i          # 15 bytes
    small_sent.append(msg)
    sim.client.send_guaranteed(msg)

frame = 0
for _ in range(30):                   # 0.5 s of ordinary traffic
    send_input(frame); frame += 1
    sim.step()

BIG = bytes(range(256)) * 5 + bytes(150)     # 1430 bytes
assert len(BIG) == 1430 and len(BIG) <= Packet.MAX_PAYLOAD_SIZE
result = []
sim.client.send_guaranteed(BIG, result.append)
t_big = sim.t

for _ in range(60 * 30):              # 30 more seconds of the same traffic
    send_input(frame); frame += 1
    sim.step()

delivered_small = sum(1 for m in small_sent if m in set(sim.handler.received))
print("connection still open         :", sim.client.connected(), sim.sconn.status)
print("datagrams lost                : 0")
print("small messages sent/delivered : %d / %d" % (len(small_sent), delivered_small))
print("seconds since BIG was sent    : %.1f" % (sim.t - t_big))
print("BIG delivered                 :", BIG in sim.handler.received)
print("BIG callback                  :", result)
print("BIG still queued in client    :", any(m.payload == BIG for m in sim.cconn.outgoing_messages))

assert sim.client.connected() and sim.sconn.status == ConnectionStatus.CONNECTED
assert delivered_small >= len(small_sent) - 30      # the other traffic flows
# C05: the guaranteed message must be delivered (connection open, perfect network)
# C07: its callback must have fired exactly once with True
assert BIG in sim.handler.received, \
    "guaranteed 1430 byte message still unsent after %.0f s (callback: %r)" % (sim.t - t_big, result)
assert result == [True]
print("OK")
