#! PYTHONPATH=/tmp/aud/A /venv/bin/python d1_demo.py
"""
C02 - a SERVER_HELLO is not bound to the CLIENT_HELLO it answers.

The signed part of the server hello is (server ephemeral key, salt, token).
Nothing of the client hello (client ephemeral key / nonce) is covered and the
client does not check anything else, so a genuine hello that answers ANOTHER
client hello is accepted: the client turns CONNECTED and adopts a key/token
which no server connection holds.

Part A: no attacker at all. Only delay/reordering of handshake datagrams plus
        an application level retry of connect() from the same address
        (UdpClient.connect creates a fresh ClientServerConnection with a fresh
        ephemeral key). The hello of the abandoned attempt overtakes the hello
        of the current attempt.
Part B: active attacker replays a hello it obtained in its own (older) session
        to a victim at a different address.

The server side is driven exactly the way UdpServerThread.run does it (the
three dispatch branches and the per tick maintenance are copied from
server.py), only with an injected clock instead of a thread.
"""
import sys
import logging
logging.disable(logging.CRITICAL)

from mpgameserver.connection import ClientServerConnection, ServerClientConnection, \
    PacketHeader, PacketType, ConnectionStatus
from mpgameserver.context import ServerContext
from mpgameserver.handler import EventHandler
from mpgameserver.crypto import EllipticCurvePrivateKey

NOW = [1000.0]
clock = lambda: NOW[0]

class Handler(EventHandler):
    def __init__(self):
        self.connected = []
    def connect(self, client):
        self.connected.append(client)

class MiniServer(object):
    """ single threaded copy of the UdpServerThread main loop body """
    def __init__(self, ctxt):
        self.ctxt = ctxt
        self.sent = []   # (datagram, addr)

    def receive(self, addr, datagram):
        hdr = PacketHeader.from_bytes(True, datagram)
        try:
            if addr in self.ctxt.connections:
                client = self.ctxt.connections[addr]
                client._recv_datagram(hdr, datagram)
                for seqnum, msg in client.incoming_messages:
                    self.ctxt.handler.handle_message(client, seqnum, msg)
                client.incoming_messages = []
            elif addr in self.ctxt.temp_connections:
                if hdr.pkt_type != PacketType.CHALLENGE_RESP:
                    return
                client = self.ctxt.temp_connections[addr]
                client._recv_datagram(hdr, datagram)
            else:
                if hdr.pkt_type != PacketType.CLIENT_HELLO:
                    return
                client = ServerClientConnection(self.ctxt, addr)
                client.clock = clock
                client.send_keep_alive_interval = self.ctxt.keep_alive_interval
                client.outgoing_timeout = self.ctxt.outgoing_timeout
                self.ctxt.temp_connections[addr] = client
                client._recv_datagram(hdr, datagram)
        except Exception as e:
            pass # the thread logs and continues

    def tick(self):
        sending = []
        for client in list(self.ctxt.connections.values()):
            if client.status == ConnectionStatus.DISCONNECTING:
                client.disconnect()
            if client.status == ConnectionStatus.DISCONNECTED or client.timedout(self.ctxt.connection_timeout):
                self.ctxt.onDisconnect(client)
                msg = client.update()
                if msg is not None:
                    sending.append(msg)
                del self.ctxt.connections[client.addr]
            else:
                msg = client.update()
                if msg is not None:
                    sending.append(msg)
        for client in list(self.ctxt.temp_connections.values()):
            if client.status == ConnectionStatus.DISCONNECTED or client.timedout(self.ctxt.temp_connection_timeout):
                del self.ctxt.temp_connections[client.addr]
            else:
                msg = client.update()
                if msg is not None:
                    sending.append(msg)
        out = []
        for pkt, key, addr in sending:
            out.append((pkt.to_bytes(key), addr))
        self.sent.extend(out)
        return out

def new_client(server_addr, pubkey, events):
    conn = ClientServerConnection(server_addr)
    conn.clock = clock
    conn.setServerPublicKey(pubkey)
    conn.connection_callback = lambda ok: events.append(ok)
    conn._sendClientHello()
    return conn

def client_flush(conn):
    """ what UdpClient.update() does after receiving """
    out = []
    pkt = conn._build_packet()
    if pkt is not None:
        out.append(conn._encode_packet(pkt))
    conn._check_timeout(clock())
    return out

def client_recv(conn, datagram):
    hdr = PacketHeader.from_bytes(False, datagram)
    return conn._recv_datagram(hdr, datagram)

def server_conn_for(ctxt, addr):
    return ctxt.connections.get(addr) or ctxt.temp_connections.get(addr)

failures = []

def check(cond, text):
    print(("ok   " if cond else "FAIL ") + text)
    if not cond:
        failures.append(text)

# ---------------------------------------------------------------------------
def part_a():
    print("--- part A: stale hello of an abandoned attempt, honest parties only")
    root = EllipticCurvePrivateKey.new()
    handler = Handler()
    ctxt = ServerContext(handler, root)
    server = MiniServer(ctxt)
    SERVER = ("10.0.0.9", 1474)
    CLIENT = ("10.0.0.1", 40000)
    NOW[0] = 1000.0

    # attempt 1
    ev1 = []
    c1 = new_client(SERVER, root.getPublicKey(), ev1)
    (ch1,) = client_flush(c1)
    server.receive(CLIENT, ch1)
    ((sh1, _),) = server.tick()           # genuine, correctly signed hello no. 1
    t1 = ctxt.temp_connections[CLIENT]
    # ... sh1 is delayed inside the network

    # the default timeouts (2s on both sides) expire
    NOW[0] += 2.05
    c1.update()
    client_flush(c1)
    check(ev1 == [False] and c1.status == ConnectionStatus.DISCONNECTED, "attempt 1 reported as failed to the application")
    server.tick()
    check(CLIENT not in ctxt.temp_connections, "server forgot attempt 1")

    # the application retries: UdpClient.connect() => new connection object, new ephemeral key
    NOW[0] += 0.05
    ev2 = []
    c2 = new_client(SERVER, root.getPublicKey(), ev2)
    (ch2,) = client_flush(c2)
    server.receive(CLIENT, ch2)
    ((sh2, _),) = server.tick()           # hello no. 2, the answer to ch2
    t2 = ctxt.temp_connections[CLIENT]

    # reordering: the delayed hello no. 1 arrives first, then hello no. 2
    NOW[0] += 0.02
    client_recv(c2, sh1)
    out = client_flush(c2)
    NOW[0] += 0.02
    client_recv(c2, sh2)
    out += client_flush(c2)
    for datagram in out:
        server.receive(CLIENT, datagram)
    server.tick()

    print("     client status=%s callback=%s token=%08x" % (c2.status, ev2, c2.token))
    print("     server conn   status=%s token=%08x promoted=%s" % (t2.status, t2.token, CLIENT in ctxt.connections))

    if c2.status == ConnectionStatus.CONNECTED:
        peer = server_conn_for(ctxt, CLIENT)
        check(peer is not None and peer.session_key_bytes == c2.session_key_bytes,
            "client is CONNECTED => the server connection of that address holds the same key")
        check(peer is not None and peer.token == c2.token,
            "client is CONNECTED => the server connection of that address holds the same token")
        check(c2.session_key_bytes in (t1.session_key_bytes, t2.session_key_bytes),
            "the key adopted by the client was derived by some server connection")

# ---------------------------------------------------------------------------
def part_b():
    print("--- part B: attacker replays a hello from its own earlier session")
    root = EllipticCurvePrivateKey.new()
    ctxt = ServerContext(Handler(), root)
    server = MiniServer(ctxt)
    SERVER = ("10.0.0.9", 1474)
    ATTACKER = ("10.6.6.6", 666)
    VICTIM = ("10.0.0.2", 40001)
    NOW[0] = 5000.0

    # the attacker is an ordinary client and records the hello it is sent
    ev = []
    a = new_client(SERVER, root.getPublicKey(), ev)
    (ch,) = client_flush(a)
    server.receive(ATTACKER, ch)
    ((recorded, _),) = server.tick()

    # much later the victim connects; the attacker answers first
    NOW[0] += 60
    server.tick()
    ev = []
    v = new_client(SERVER, root.getPublicKey(), ev)
    (ch,) = client_flush(v)
    client_recv(v, recorded)              # replay, injected before the real answer
    out = client_flush(v)
    server.receive(VICTIM, ch)
    ((sh, _),) = server.tick()
    client_recv(v, sh)                    # the real answer is now undecryptable garbage
    out += client_flush(v)
    for datagram in out:
        server.receive(VICTIM, datagram)
    server.tick()

    peer = server_conn_for(ctxt, VICTIM)
    print("     victim status=%s callback=%s" % (v.status, ev))
    if v.status == ConnectionStatus.CONNECTED:
        check(peer is not None and peer.session_key_bytes == v.session_key_bytes and peer.token == v.token,
            "victim is CONNECTED => key and token are those of the server connection for the victim")

part_a()
part_b()

if failures:
    print("\n%d check(s) failed: a genuine but foreign server hello connected the client" % len(failures))
    sys.exit(1)
print("all fine")
