"""C11 - hostile datagrams cannot stop the server, hurt other clients or be amplified."""
import random
import struct
import collections

from checks.common import UdpCheck, Monitor, swarm_cfg, limits, QueueConservation
from world.attacker import Attacker
from world.udpworld import SERVER_ADDR, client_addr, ConnectionStatus, server_mod
from world import refmodel as R

BLOCKED_ATTACKER_IP = "172.16.9.9"


class HostileMonitor(Monitor):
    def attach(self, world):
        self.w = world
        self.appended = collections.Counter()      # ip -> datagrams handed to the loop's queue
        self.bytes_in = collections.Counter()      # addr -> bytes that reached the server socket
        self.bytes_out = collections.Counter()     # addr -> bytes the server emitted towards it
        self.promoted = set()                      # addrs that completed the handshake (handler.connect seen)
        self.amplified = []
        self.out_to_blocked = collections.Counter()
        self.temp_pool_max = 0
        UST = server_mod.UdpServerThread
        orig = UST.append
        mon = self

        def append(th, addr, hdr, datagram):
            mon.appended[mon.ip(addr)] += 1
            return orig(th, addr, hdr, datagram)
        world.seams._set(UST, "append", append)
        world.net.rx_taps.append(self.rx)
        world.net.taps.append(self.tx)

    @staticmethod
    def ip(addr):
        h = addr[0]
        return h[7:] if h.lower().startswith("::ffff:") and "." in h else h

    def rx(self, t, src, dst, n, origin):
        if dst == SERVER_ADDR:
            self.bytes_in[tuple(src[:2])] += n

    def tx(self, wid, t, src, dst, data, fate):
        if src != SERVER_ADDR:
            return
        w = self.w
        self.bytes_out[dst] += len(data)
        if self.ip(dst) in self.blocklist:
            self.out_to_blocked[self.ip(dst)] += len(data)
        if dst not in self.promoted and self.bytes_out[dst] > self.bytes_in[dst]:
            self.amplified.append((t, dst, self.bytes_out[dst], self.bytes_in[dst]))

    def on_tick(self):
        w = self.w
        for e in w.hev[getattr(self, "_hpos", 0):]:
            if e[1] == "connect":
                self.promoted.add(tuple(e[4][0]))
        self._hpos = len(w.hev)
        n = len(w.ctxt.temp_connections)
        if n > self.temp_pool_max:
            self.temp_pool_max = n


class C11(UdpCheck):
    pid = "C11"
    budget = {"quick": 75, "thorough": 900}
    ncases = {"quick": 300, "thorough": 12000}
    rule = ("case = honest echo clients (guaranteed message every 0.25 s, echoed guaranteed by the server application) while "
            "the attacker delivers, through TwistedServer.datagramReceived or the _UdpServer receive loop, bulk hostile "
            "datagrams: random bytes of every length up to the receive size, valid magic + random rest, valid header + random "
            "body, genuine CLIENT_HELLOs replayed from thousands of fresh addresses, CRC-repaired bit-flipped/truncated/short "
            "hellos, from claimed sources incl. established clients, block-listed IPs (also as IPv4-mapped peer of a dual stack socket) "
            "and source port 0; in 1/3 of multi-client runs one client that completed the handshake turns hostile and its address "
            "sends datagrams sealed under its own session key with content no honest sender produces (every message type, bad "
            "fragment headers, count/length mismatches, 255 empty messages, oversized); block list in "
            "{empty, attacker, attacker+one honest client}; every MTU class.  non-trivial = at least 1000 hostile datagrams "
            "reached the server socket and honest traffic was echoed; distinct = event-order digest")

    def gen(self, rng, tier, i):
        n = rng.choice([1, 2, 3])
        cfg = swarm_cfg(rng, nclients=n, entry=rng.choice(["twisted", "udpserver"]), long_latency=False)
        cfg["server"]["echo"] = -1
        cfg["jitter"] = min(cfg["jitter"], 0.02)
        dur = rng.choice([8.0, 12.0])
        bl = rng.choice(["none", "attacker", "attacker", "both"])
        blocklist = []
        blocked_client = None
        if bl in ("attacker", "both"):
            # the operator may have copied the address as a dual stack socket reports it
            blocklist.append(("::ffff:" if cfg["entry"] == "twisted" and rng.random() < 0.3 else "") + BLOCKED_ATTACKER_IP)
        if bl == "both" and n > 1:
            blocked_client = n - 1
            blocklist.append(client_addr(blocked_client)[0])
        cfg["server"]["blocklist"] = blocklist
        cfg["blocked_client"] = blocked_client
        plan = []
        for c in range(n):
            plan.append({"op": "connect", "c": c, "t": round(0.05 + 0.1 * c, 3)})
            t = 1.0
            while t < dur - 3.5:
                plan.append({"op": "send", "c": c, "t": round(t, 3), "len": rng.choice([8, 40, 300, 2000]), "retry": -1,
                             "cb": False, "api": "send"})
                t += 0.25
        nf = rng.choice([3, 6, 10])
        for j in range(nf):
            kind = rng.choice(["random", "magic", "header", "hello-replay", "hello-replay", "hello-mutated", "hello-short",
                               "mutate-genuine", "hello-reseq", "hello-reseq", "smuggle"])
            srcmode = rng.choice(["fresh", "fresh", "victim", "blocked", "blocked-mapped", "port0", "one"])
            if srcmode == "blocked-mapped" and cfg.get("entry") != "twisted":
                srcmode = "blocked"     # only the Twisted entry can listen on a dual stack socket; _UdpServer is AF_INET
            if srcmode == "blocked" and any(b.startswith("::ffff:") for b in blocklist):
                srcmode = "blocked-mapped"      # an entry in mapped spelling names the peer of a dual stack socket
            plan.append({"op": "flood", "global": True, "t": round(0.6 + rng.random() * (dur - 4.5), 3), "kind": kind,
                         "srcmode": srcmode, "count": rng.choice([100, 400, 1500]), "spread": rng.choice([0.0, 0.05, 0.5]),
                         "n": j, "victim": rng.randrange(n)})
        rng_w = random.Random("winsock|%s" % (rng.getstate()[1][:3],))      # (does not consume from the main stream)
        if cfg["entry"] == "udpserver" and rng.random() < 0.3:
            # Windows reports an ICMP "port unreachable" for an earlier reply (to a peer that is gone, or never existed) as
            # ECONNRESET on the server's NEXT recvfrom: a failing system call provoked by any datagram source
            for j in range(rng.choice([1, 3])):
                plan.append({"op": "recvreset", "global": True, "t": round(1.0 + rng.random() * (dur - 5.0), 3)})
            if rng_w.random() < 0.4:
                # ... many of them over the life of the server (every reply to a vanished peer can cause one)
                for j in range(rng_w.choice([18, 40])):
                    plan.append({"op": "recvreset", "global": True, "t": round(0.8 + rng_w.random() * (dur - 5.0), 3)})
        if cfg["entry"] == "udpserver" and rng_w.random() < 0.4:
            # a Windows socket reports a datagram larger than the receive buffer as an error of recvfrom (WSAEMSGSIZE)
            # instead of truncating it silently: "oversized packets" from any source become failing system calls
            plan.append({"op": "winsock", "global": True, "t": 0.3, "n": rng_w.choice([1, 3, 20]),
                         "at": round(1.0 + rng_w.random() * (dur - 5.0), 3), "srcmode": rng_w.choice(["fresh", "victim", "blocked"])})
        if n > 1 and blocked_client is None and rng.random() < 0.35:
            # one client that completed the handshake turns hostile: it stops its own loop and from then on its address
            # sends datagrams sealed under ITS session key whose content no honest sender would produce
            ins = n - 1
            cfg["insider"] = ins
            t0 = round(2.0 + rng.random() * (dur - 7.0), 3)
            for j in range(rng.choice([1, 2, 4])):
                plan.append({"op": "insider", "global": True, "t": round(t0 + 0.05 + 0.4 * j, 3), "c": ins, "n": j,
                             "count": rng.choice([20, 60, 200]), "spread": rng.choice([0.0, 0.2])})
        if n > 1 and "insider" not in cfg and rng.random() < 0.25:
            # the kernel refuses datagrams towards ONE honest client for a while: the others must not notice
            victim = rng.randrange(n)
            plan.append({"op": "sockerr", "t": round(1.5 + rng.random() * (dur - 6), 3), "d": rng.choice([0.3, 0.8]), "c": victim})
            cfg["sockerr_victim"] = victim
        cfg["duration"] = dur
        return {"cfg": cfg, "plan": plan}

    def monitors(self, case):
        self.mon = HostileMonitor()
        self.mon.blocklist = set(HostileMonitor.ip((b,)) for b in case["cfg"]["server"].get("blocklist") or ())
        self.qc = QueueConservation()
        return [self.mon, self.qc]

    def prepare(self, w, case):
        Attacker(w)
        w.custom_ops["flood"] = self.op_flood
        w.custom_ops["winsock"] = self.op_winsock
        w.custom_ops["insider"] = self.op_insider
        w.custom_ops["recvreset"] = self.op_recvreset
        self.insider_seq = None
        self.insider_key = None

    def op_flood(self, w, _node, op):
        att = w.attacker
        rng = random.Random("flood|%s|%s" % (w.cfg["seed"], op["n"]))
        recv = w.cfg["mtu"] + 512
        hello = None
        lg = att.log.get("c0>S")
        if lg:
            hello = lg[0][2]
        kind = op["kind"]
        for j in range(op["count"]):
            mode = op["srcmode"]
            if mode == "fresh":
                src = ("172.%d.%d.%d" % (17 + rng.randrange(10), rng.randrange(256), 1 + rng.randrange(250)), 1024 + rng.randrange(60000))
            elif mode == "one":
                src = ("172.30.0.1", 5000 + op["n"])
            elif mode == "victim":
                src = client_addr(op["victim"])
            elif mode == "blocked":
                src = (BLOCKED_ATTACKER_IP, 1024 + rng.randrange(60000))
            elif mode == "blocked-mapped":
                # the server listens on "::" (dual stack): an IPv4 peer shows up as an IPv4-mapped IPv6 4-tuple
                src = ("::ffff:" + BLOCKED_ATTACKER_IP, 1024 + rng.randrange(60000), 0, 0)
            else:
                src = ("172.29.%d.%d" % (rng.randrange(256), 1 + rng.randrange(250)), 0)
            if kind == "random":
                d = rng.randbytes(rng.choice([0, 1, 19, 20, 21, 36, 37, 100, 484, recv, recv + 64, rng.randrange(recv)]))
            elif kind == "magic":
                d = R.MAGIC_TO_SERVER + rng.randbytes(rng.randrange(recv))
            elif kind == "header":
                ln = rng.randrange(0, 600)
                h = R.enc_header(False, rng.randrange(2 ** 32), rng.randrange(1, 65536), rng.randrange(65536),
                                 rng.randrange(8), rng.choice([ln, ln, 0, 65535]), rng.choice([0, 1, 2, 3, 255]), rng.randrange(2 ** 32))
                d = h + rng.randbytes(ln + rng.choice([0, 4, 16]))
            elif kind == "smuggle":
                # CRC-only datagram whose header says CLIENT_HELLO but which carries several messages of other handshake /
                # application types (a challenge response echoing token 0, keep-alives, app data): nothing of it may be
                # processed for an address without a key, and nothing may be sent back
                from world.seams import conn_mod
                cr = conn_mod.HandshakeClientChallengeResponseMessage()
                cr.token = rng.choice([0, 0, 1, 0xFFFFFFFF])
                inner = rng.choice([[R.T_CHALLENGE_RESP, R.T_CHALLENGE_RESP], [R.T_CHALLENGE_RESP, R.T_APP], [R.T_KEEP_ALIVE, R.T_CHALLENGE_RESP],
                                    [R.T_APP, R.T_APP], [R.T_CHALLENGE_RESP, R.T_KEEP_ALIVE, R.T_APP]])
                msgs = [(rng.randrange(1, 65536), t, cr.dumpb() if t == R.T_CHALLENGE_RESP else b"smuggled") for t in inner]
                d = R.forge_plain(False, rng.choice([R.T_CLIENT_HELLO, R.T_CLIENT_HELLO, R.T_CHALLENGE_RESP]), rng.randrange(1, 65536), 0, 0, msgs,
                                  ctime=1_700_000_000 + rng.randrange(10 ** 6))
            elif hello is None:
                d = rng.randbytes(40)
            elif kind == "hello-replay":
                d = hello
            elif kind == "hello-reseq":
                # a well-formed hello is only CRC protected: give it any sequence number (fresh ones near the victim's)
                h = R.dec_header(hello)
                near = att.last_hdr.get("c%d" % op["victim"], {"seq": 1})["seq"]
                seq = R.ring_add(near, rng.choice([1, 2, 5, 40, 1000])) if rng.random() < 0.7 else rng.randrange(1, 65536)
                hh = R.enc_header(False, h["ctime"], seq, h["ack"], h["type"], h["length"], h["count"], h["ack_bits"])
                body = bytearray(hello[R.HDR:R.HDR + h["length"]])
                body[0:2] = struct.pack(">H", rng.randrange(1, 65536))       # and any message sequence number
                d = R.seal_crc(hh, bytes(body))
            elif kind == "mutate-genuine":
                lgv = att.log.get("c%d>S" % op["victim"]) or lg
                b = bytearray(lgv[-1][2])
                if b:
                    bit = rng.randrange(len(b) * 8)
                    b[bit // 8] ^= 1 << (bit % 8)
                d = bytes(b)
            else:
                h = R.dec_header(hello)
                body = bytearray(hello[R.HDR:R.HDR + h["length"]])
                if kind == "hello-short":
                    body = body[: rng.choice([2, 10, 60, 95, 100, 200])]
                else:
                    for _ in range(rng.choice([1, 1, 2, 8])):
                        p = rng.randrange(2, min(len(body), 140))
                        body[p] = rng.randrange(256)
                    if rng.random() < 0.3:
                        body = body[: rng.randrange(2, len(body))]
                hh = R.enc_header(False, h["ctime"], h["seq"], h["ack"], h["type"], len(body), h["count"], h["ack_bits"])
                d = R.seal_crc(hh, bytes(body))
            att.count("flood-" + kind)
            w.net.inject(src, SERVER_ADDR, d, delay=op["spread"] * j / max(1, op["count"]), meta={"gen": "flood-" + kind})
        w.probe("flood_from_" + op["srcmode"])

    def op_winsock(self, w, _node, op):
        def note(n_, buf):
            w.probe("server_recvfrom_emsgsize_raised")
        for sock in w.seams.server_sockets:
            sock.msgsize_error = note
        rng = random.Random("winsock|%s" % w.cfg["seed"])
        bl = sorted(w.cfg["server"].get("blocklist") or ())
        for j in range(op["n"]):
            if op["srcmode"] == "victim" and w.clients:
                src = client_addr(0)
            elif op["srcmode"] == "blocked" and bl and not bl[0].startswith("::"):
                src = (bl[0], 5000 + j)
            else:
                src = ("10.9.%d.%d" % (rng.randrange(256), rng.randrange(1, 255)), rng.randrange(1024, 65535))
            size = w.cfg["mtu"] + 512 + rng.choice([1, 2, 100, 3000])
            w.attacker.count("oversized-datagram")
            w.net.inject(src, SERVER_ADDR, rng.randbytes(size), delay=op["at"] - w.k.now + 0.01 * j, meta={"gen": "oversized"})

    def op_recvreset(self, w, _node, op):
        import errno
        for sock in w.seams.server_sockets:
            sock.inject_recv_error(ConnectionResetError(errno.ECONNRESET, "Connection reset by peer (ICMP port unreachable)"))
            w.probe("server_recvfrom_econnreset_injected")

    def op_insider(self, w, _node, op):
        """Datagrams that authenticate under the session key of a client that finished the handshake, with content
        no honest sender produces (built with the reference codec)."""
        cn = w.clients[op["c"]]
        if self.insider_key is None:
            conn = getattr(cn.client, "conn", None) if cn.client is not None else None
            if conn is None or not cn.client.connected():
                return
            self.insider_key = conn.session_key_bytes
            w.app_event(cn.name, cn.inc, "crash")
            cn.crash()                  # its own loop stops; the address lives on in the attacker's hands
        key = self.insider_key
        rng = random.Random("insider|%s|%s" % (w.cfg["seed"], op["n"]))
        if self.insider_seq is None:
            self.insider_seq = w.attacker.last_hdr.get(cn.name, {"seq": 1})["seq"]     # newest seen on the wire
        src = client_addr(op["c"])
        cap = w.cfg["mtu"] - 28 - R.HDR - R.TAG
        for j in range(op["count"]):
            self.insider_seq = R.ring_add(self.insider_seq, rng.choice([1, 1, 1, 2, 7]))
            kind = rng.choice(["types", "types", "frag", "frag", "frag", "count", "length", "many", "empty", "big"])
            typ = R.T_APP
            count = None
            length = None
            ms = rng.randrange(1, 65536)
            if kind == "types":
                inner = [rng.choice([0, 1, 2, 3, 4, 5, 8, 9, 200, 255]) for _ in range(rng.choice([1, 2, 5]))]
                inner = [t for t in inner if t != 5 or rng.random() < 0.2]      # DISCONNECT only now and then
                msgs = [(R.ring_add(ms, i), t, rng.randbytes(rng.choice([0, 1, 4, 100, 180]))) for i, t in enumerate(inner)]
                typ = inner[0] if inner and rng.random() < 0.5 else rng.randrange(0, 10)
            elif kind == "frag":
                fid = rng.randrange(65536)
                cnt = rng.choice([0, 1, 2, 3, 0xFFFF, 0x2000, 0x2001])
                idx = rng.choice([0, 1, 2, cnt, cnt + 1 & 0xFFFF, 0xFFFF])
                body = struct.pack(">HHH", fid, idx, cnt) + rng.randbytes(rng.choice([0, 0, 1, 50]))
                if rng.random() < 0.25:
                    body = body[: rng.randrange(0, 6)]          # shorter than the fragment header
                msgs = [(ms, R.T_APP_FRAGMENT, body)]
                if rng.random() < 0.4:
                    msgs.append((R.ring_add(ms, 1), R.T_APP_FRAGMENT, struct.pack(">HHH", fid, 1, 1) + b"x"))
                typ = R.T_APP_FRAGMENT
            elif kind == "count":
                msgs = [(R.ring_add(ms, i), R.T_APP, b"abc") for i in range(rng.choice([1, 2, 3]))]
                count = rng.choice([0, 1, 2, 4, 255])
            elif kind == "length":
                msgs = [(ms, R.T_APP, rng.randbytes(40))]
                length = rng.choice([0, 1, 2, 41, 43, 1000, 65535])
            elif kind == "many":
                msgs = [(R.ring_add(ms, i), R.T_APP, b"") for i in range(rng.choice([200, 255]))]
            elif kind == "empty":
                msgs = []
                count = rng.choice([0, 0, 1, 2])
            else:
                msgs = [(ms, R.T_APP, rng.randbytes(rng.choice([cap - 2, cap - 1, cap, cap + 400])))]
            body = R.enc_payload(msgs)
            base = w.attacker.last_hdr.get("S", {"seq": 0})
            h = R.enc_header(False, int(w.k.now) + 1_700_000_000, self.insider_seq, base["seq"], typ,
                             (len(body) if length is None else length) & 0xFFFF, (len(msgs) if count is None else count) & 0xFF,
                             rng.choice([0, 0xFFFFFFFF, rng.randrange(2 ** 32)]))
            d = R.seal_gcm(key, h, body)
            w.attacker.count("insider-" + kind)
            w.net.inject(src, SERVER_ADDR, d, delay=op["spread"] * j / max(1, op["count"]), meta={"gen": "insider-" + kind})
        w.probe("insider_flood")

    def nontrivial(self, w, case):
        hostile = sum(v for k, v in w.injections.items())
        return hostile >= 1000 and any(d[1] != "S" for d in w.delivs)

    def judge(self, w, case):
        vs = []
        mon = self.mon
        cfg = case["cfg"]
        entry = cfg["entry"]
        # 1. the loop never stops
        for name, typ, msg in w.thread_exits:
            if typ != "SimAbort":
                vs.append({"kind": "server_thread_died", "key": "%s:%s:%s" % (entry, name.split("-")[1][:4], typ), "detail": msg})
        if w.loop_done:
            vs.append({"kind": "server_loop_exited", "key": entry, "detail": w.thread_exits})
        # 2. block-listed sources: no processing, no connection, no reply
        for ip in mon.blocklist:
            if mon.appended.get(ip):
                vs.append({"kind": "blocked_source_reached_the_loop", "key": entry, "detail": {"ip": ip, "n": mon.appended[ip]}})
            if mon.out_to_blocked.get(ip):
                vs.append({"kind": "server_replied_to_blocked_source", "key": entry, "detail": {"ip": ip, "bytes": mon.out_to_blocked[ip]}})
            if any(mon.ip(sc.addr) == ip for sc in w.all_server_conns):
                vs.append({"kind": "connection_object_for_blocked_source", "key": entry, "detail": {"ip": ip}})
        # 3. no amplification towards an address that has not completed the handshake
        if mon.amplified:
            t, dst, out, inn = mon.amplified[0]
            vs.append({"kind": "amplification_before_handshake", "key": entry,
                       "detail": {"t": t, "addr": dst, "bytes_out": out, "bytes_in": inn, "n": len(mon.amplified)}})
        # 4. service to honest clients undisturbed
        rtt = 2 * (cfg["latency"] + cfg["jitter"] + cfg["reactor_lag"])
        tick = max(cfg["server"]["interval"], max(c["dt"] for c in cfg["clients"]))
        B = 3.0 * (cfg.get("msg_timeout", 1.0) + rtt + 0.1 + 3 * tick) + 0.5
        echoed = collections.Counter()
        for t, receiver, cname, s, msgseq, head in w.delivs:
            if receiver != "S":
                echoed[(receiver, s)] += 1
        for cn in w.clients:
            if cfg.get("sockerr_victim") == cn.idx:
                continue        # this client's own datagrams were refused by the (simulated) kernel: only the OTHERS are judged
            if cfg.get("insider") == cn.idx:
                continue        # turned hostile: whatever the server does to it, only the OTHERS are judged
            if cfg.get("blocked_client") == cn.idx:
                if cn.client is not None and cn.client.connected():
                    vs.append({"kind": "blocked_client_connected", "key": entry, "detail": cn.name})
                continue
            if not any(op.get("op") == "connect" and op.get("c") == cn.idx for op in w.plan):
                continue        # (minimised plans) never asked to connect
            st = [s for t, name, inc, s in w.status_log if name == cn.name]
            if "DROPPED" in st or "DISCONNECTED" in st or "CONNECTED" not in st:
                vs.append({"kind": "honest_client_lost_its_connection", "key": entry, "detail": {"client": cn.name, "statuses": st}})
                continue
            for rec in w.sends:
                if rec["who"] == cn.name and rec["ok"] and rec["status"] == "CONNECTED" and rec["t"] < w.k.now - B:
                    if echoed[(cn.name, rec["sig"])] < 1:
                        vs.append({"kind": "honest_echo_missing", "key": entry,
                                   "detail": {"client": cn.name, "len": rec["len"], "t_sent": rec["t"], "bound": round(B, 3)}})
                        break
        for t, kind, cid, th, extra in w.hev:
            if kind == "disconnect" and not ("insider" in cfg and tuple(extra[:2]) == tuple(client_addr(cfg["insider"]))):
                vs.append({"kind": "honest_client_disconnected_by_server", "key": entry, "detail": {"t": t, "addr": extra}})
        vs += self.qc.judge(w, 3 * max(cfg["server"]["interval"], 1 / 60) + cfg["reactor_lag"] + cfg.get("wake_lag", 0) + 0.02)
        w.maxima["temp_pool_size"] = mon.temp_pool_max
        w.probes["hostile_datagrams_at_server_socket"] += sum(w.injections.values())
        return vs

    def sample(self, w, case):
        s = super().sample(w, case)
        s["injections"] = dict(w.injections)
        s["temp_pool_max"] = self.mon.temp_pool_max
        s["blocklist"] = case["cfg"]["server"].get("blocklist")
        return s


CHECK = C11()
