"""C04 - at-most-once delivery: duplicates, replays and retransmissions are dropped."""
import hashlib
import random
import collections

from checks.common import UdpCheck, Monitor, gen_traffic, limits
from checks.c01 import snapshot, SNAP_NAMES
from world.attacker import Attacker
from world.udpworld import accepted, PacketType


def dg(b):
    return hashlib.blake2b(bytes(b), digest_size=12).digest()


class DupMonitor(Monitor):
    wants_recv = True
    wants_msg = True

    def on_recv_message(self, conn, typ, msgseq, payload, dup):
        # a message more than 256 message-seqs behind the newest one: the window cannot tell whether it was
        # already delivered, the implementation accepts it (known finding KF-MSG-WINDOW when that re-delivers)
        cur = conn.bitfield_msg.current_seqnum
        if cur != 0 and not dup and typ.value == PacketType.APP.value:
            d = int(cur) - int(msgseq)
            if d > 32767:
                d -= 65535
            elif d < -32767:
                d += 65535
            if d > conn.bitfield_msg.nbits:
                from world.udpworld import sig
                self.old_accepts[(self.w.conn_name(conn), sig(payload))] += 1
                self.w.probe("message_older_than_msg_window_accepted")

    def attach(self, world):
        self.w = world
        self.accepted = collections.defaultdict(dict)     # conn name -> {digest: ordinal of acceptance}
        self.n_acc = collections.Counter()
        self.n_copies = 0
        self.max_age = 0
        self.old_accepts = collections.Counter()

    def pre_recv(self, conn, hdr, datagram):
        cn = self.w.conn_name(conn)
        d = dg(datagram)
        o = self.accepted[cn].get(d)
        if o is None:
            return (cn, d, None, None, None)
        return (cn, d, o, snapshot(conn), conn.stats.dropped)

    def post_recv(self, conn, hdr, datagram, pre, result):
        cn, d, o, snap0, dropped0 = pre
        w = self.w
        if o is None:
            if accepted(result):
                self.n_acc[cn] += 1
                acc = self.accepted[cn]
                acc[d] = (self.n_acc[cn], int(hdr.seq))
                if len(acc) > 40000:      # forget what is more than ~half a ring old
                    for k in list(acc)[:10000]:
                        del acc[k]
            return
        # byte-identical copy of a datagram this endpoint already accepted
        self.n_copies += 1
        age = self.n_acc[cn] - o[0]
        self.max_age = max(self.max_age, age)
        if age >= 32000:
            return
        w.probe("copy_age_%s" % ("le32" if age <= 32 else "le256" if age <= 256 else "gt256"))
        snap1 = snapshot(conn)
        if result is not False or snap1 != snap0 or conn.stats.dropped != dropped0 + 1:
            changed = [n for n, a, b in zip(SNAP_NAMES, snap0, snap1) if a != b]
            origin = getattr(datagram, "origin", "net")
            ageclass = "le32" if age <= 32 else "le256" if age <= 256 else "gt256"
            w.violation("duplicate_datagram_not_dropped_whole",
                        {"conn": cn, "age_in_accepted_datagrams": age, "seq": int(hdr.seq), "newest": snap0[4],
                         "result": result, "changed": changed, "dropped_delta": conn.stats.dropped - dropped0,
                         "origin": origin, "type": hdr.pkt_type.value},
                        key="%s:age=%s:%s" % ("server" if conn.isServer else "client", ageclass,
                                              "delivered" if "incoming" in changed else "state"))


def gen_dups(rng, i, tier, wrap=False):
    """Adversarial duplication / reordering / replay schedules (shared with C08)."""
    if wrap:
        case = gen_traffic(rng, i, tier, nclients=1, n_msgs=rng.choice([10, 40]), long_latency=False, entry="bare",
                           settle=3.0)
        cfg = case["cfg"]
        # just below the protocol's 60/s send cap: every frame / tick emits one datagram
        cfg["clients"][0]["dt"] = 1 / 59
        cfg["server"]["interval"] = 1 / 59
        # a steady stream of small messages in both directions keeps both sides sending
        dur = 65700 / 58.9
        cfg["duration"] = dur
        cfg["stub_sleep"] = True
        cfg["max_events"] = 30_000_000
        cfg["phases"] = [{"t0": 1.0, "t1": dur, "dup": 0.02, "dup_delay": rng.choice([0.0, 0.2, 2.0]), "loss": 0.01}]
        # unretried stream: with a retry mode the repository sorts its pending-retry table with the (slow) ring
        # comparison on every packet build, which makes 65k-datagram runs cost minutes; retry modes are
        # exercised by the short runs and by the handful of retried messages sent on top of the stream
        cfg["stream"] = {"period": 1 / 70, "len": rng.choice([0, 4, 20]), "retry": 0}
        plan = [op for op in case["plan"] if op["op"] == "connect"]
        for j in range(40):
            t = rng.random() * dur
            link = rng.choice(["c0>S", "S>c0"])
            plan.append({"op": "replay", "global": True, "t": round(t, 3), "link": link,
                         "back": rng.choice([0, 1, 31, 32, 33, 255, 256, 257, 1000, 4000]), "times": rng.choice([1, 2])})
        case["plan"] = plan
        case["wrap"] = True
        return case
    if i % 25 == 7:
        return gen_fragflood(rng, i, tier)
    case = gen_traffic(rng, i, tier, retries=(0, 1, 1, -1, -1), cb_p=0.2, n_msgs=rng.choice([6, 12, 25, 60]))
    cfg, plan = case["cfg"], case["plan"]
    n = len(cfg["clients"])
    t0 = 1.0
    t1 = cfg["t_heal"]
    cfg["phases"].insert(0, {"t0": t0, "t1": t1 + 2.0, "dup": rng.choice([0.1, 0.3, 0.6]),
                             "dup_delay": rng.choice([0.0, 0.05, 0.6, 2.0, 6.0]), "delay_p": rng.choice([0.0, 0.2]),
                             "delay": rng.choice([0.05, 0.7])})
    if rng.random() < 0.5:      # acks lost, data arrives: every retry mode retransmits
        cfg["phases"].insert(0, {"t0": t0, "t1": t1, rng.choice(["src", "dst"]): "S", "loss": rng.choice([0.4, 0.8])})
    # bulk small messages move the 256-message window quickly
    if rng.random() < 0.6:
        c = rng.randrange(n)
        who = rng.choice(["send", "ssend"])
        tb = round(t0 + rng.random() * (t1 - t0), 3)
        for b in range(rng.choice([1, 3, 6])):
            for j in range(rng.choice([60, 150, 300])):
                plan.append({"op": who, "c": c, "t": round(tb + b * 0.2, 3), "len": rng.choice([0, 3, 8, 12]), "kind": 0,
                             "retry": rng.choice([0, 0, 1, -1]), "cb": False, "api": "send"})
    if rng.random() < 0.3:
        # an outage that swallows more than a window's worth (32) of consecutive datagrams of a sender that emits one per
        # frame, shorter than every liveness timeout: the first datagram after it is far ahead of the receiver's window
        c = rng.randrange(n)
        who, period = rng.choice([("send", cfg["clients"][c]["dt"]), ("ssend", max(cfg["server"]["interval"], 1 / 60))])
        period = max(period, 1 / 60)
        d = 40 * period + 0.2
        if d < 3.5:
            tc = round(t1 + 2.5, 3)
            cfg["phases"].append({"t0": tc, "t1": round(tc + d, 3), "cut": True, **({"dst": "S", "src": "c%d" % c} if who == "send" else {"src": "S", "dst": "c%d" % c})})
            for j in range(int((d + 1.0) / period)):
                plan.append({"op": who, "c": c, "t": round(tc - 0.3 + j * period, 4), "len": 4, "kind": 0, "retry": 0, "cb": False, "api": "send"})
            cfg["duration"] = max(cfg["duration"], tc + d + 4.0)
    for j in range(rng.choice([4, 10, 25])):
        c = rng.randrange(n)
        plan.append({"op": "replay", "global": True, "t": round(t0 + rng.random() * (cfg["duration"] - t0 - 0.5), 3),
                     "link": rng.choice(["c%d>S" % c, "S>c%d" % c]),
                     "back": rng.choice([0, 1, 2, 30, 31, 32, 33, 34, 40, 64, 100, 255, 256, 257, 300, 600]),
                     "times": rng.choice([1, 1, 2, 4]), "delay": rng.choice([0.0, 0.0, 0.5])})
    rng2 = random.Random("c04-extra|%s" % (rng.getstate()[1][:3],))         # (does not consume from the main stream)
    for j in range(rng2.choice([0, 1, 3])):
        # the attacker first sends a datagram that cannot authenticate but names a sequence number far ahead (or just
        # ahead) of the sender's newest, then replays recorded genuine datagrams
        c = rng2.randrange(n)
        link = rng2.choice(["c%d>S" % c, "S>c%d" % c])
        t = round(t0 + rng2.random() * (cfg["duration"] - t0 - 1.0), 3)
        plan.append({"op": "poison", "global": True, "t": t, "link": link, "off": rng2.choice([32767, 32767, 16000, 300, 40, 33])})
        for r in range(rng2.choice([1, 3])):
            plan.append({"op": "replay", "global": True, "t": round(t + 0.02 + 0.01 * r, 3), "link": link,
                         "back": rng2.choice([1, 2, 5, 20, 31, 40]), "times": 1, "delay": 0.0})
    if rng2.random() < 0.3:
        # one client leaves through disconnect() + the blocking waitForDisconnect() while the server still sends to it;
        # afterwards its application keeps polling getMessages() every frame
        c = rng2.randrange(n)
        td = round(cfg["duration"] - 2.5, 3)
        for r in range(rng2.choice([2, 5])):
            plan.append({"op": "ssend", "c": c, "t": round(td - 0.08 + 0.03 * r, 4), "len": rng2.choice([8, 30, 200]), "kind": 0,
                         "retry": rng2.choice([0, 1, -1]), "cb": False, "api": "send"})
        plan.append({"op": "disconnect", "c": c, "t": td, "wait": True})
    return case


def gen_fragflood(rng, i, tier):
    """Several hundred fragmented messages on one connection (more than the receiver remembers as completed),
    then fragmented retried messages whose acks are all lost for longer than the message timeout."""
    case = gen_traffic(rng, i, tier, nclients=1, n_msgs=3, long_latency=False, fault=False, entry=rng.choice(["bare", "twisted"]))
    cfg = case["cfg"]
    cfg["mtu"] = rng.choice([512, 513, 576])
    cap1 = limits(cfg["mtu"])["cap1"]
    cfg["clients"][0]["dt"] = 1 / 60
    cfg["server"]["interval"] = 1 / 60
    cfg["latency"], cfg["jitter"] = 0.005, 0.0
    who = rng.choice(["send", "ssend"])
    plan = [op for op in case["plan"] if op["op"] == "connect"]
    n = rng.choice([240, 262, 300])
    t = 1.0
    if rng.random() < 0.5:
        # the other order: the retried fragmented messages go first and lose their acks; with a long message timeout their
        # fragments are re-sent (under new message numbers) only after several hundred other fragmented messages have
        # completed at the receiver - a steady stream at the send cap, no backlog
        mt = rng.choice([6.0, 11.0, 14.0])
        cfg["msg_timeout"] = cfg["server"]["msg_timeout"] = cfg["clients"][0]["msg_timeout"] = mt
        for j in range(rng.choice([1, 2, 4])):
            plan.append({"op": who, "c": 0, "t": round(t + 0.01 * j, 4), "len": cap1 + 1 + rng.randrange(0, 900), "kind": 0,
                         "retry": rng.choice([1, -1, -1]), "cb": False, "api": "send"})
        back = {"send": "src", "ssend": "dst"}[who]
        cfg["phases"] = [{"t0": t - 0.05, "t1": t + 1.3, back: "S", "cut": True}]     # > 32 datagrams of the flood: the acks are gone for good
        t += 0.1
        n = int((mt + 1.5) * 60 / 2.2)
        for j in range(n):
            plan.append({"op": who, "c": 0, "t": round(t, 4), "len": cap1 + 1 + rng.randrange(0, 40), "kind": rng.choice([0, 3]),
                         "retry": 0, "cb": False, "api": "send"})
            t += 2.2 / 60
        cfg["t_heal"] = 2.0
        cfg["duration"] = round(t + 5.0, 3)
        case["plan"] = plan
        case["fragflood"] = "retried-first"
        return case
    for j in range(n):
        plan.append({"op": who, "c": 0, "t": round(t, 4), "len": cap1 + 1 + rng.randrange(0, 40), "kind": rng.choice([0, 3]),
                     "retry": 0, "cb": False, "api": "send"})
        t += 2.2 / 60
    t += 0.5
    for j in range(rng.choice([1, 2, 4])):
        plan.append({"op": who, "c": 0, "t": round(t + 0.01 * j, 4), "len": cap1 + 1 + rng.randrange(0, 900), "kind": 0,
                     "retry": rng.choice([1, -1]), "cb": False, "api": "send"})
    # data arrives, every ack is lost for longer than the message timeout
    back = {"send": "src", "ssend": "dst"}[who]
    cfg["phases"] = [{"t0": t - 0.05, "t1": t + 1.6, back: "S", "cut": True}]
    cfg["t_heal"] = t + 1.6
    cfg["duration"] = round(t + 1.6 + 6.0, 3)
    case["plan"] = plan
    return case


def install_stream(w, case):
    """Steady small-message stream used by the wrap runs (keeps the seq counters running at the send cap)."""
    st = case["cfg"].get("stream")
    if not st:
        return
    k = w.k

    stop = st.get("stop", w.end_time - 2.0)

    def pump(who):
        if k.now >= stop or w.stopped:
            return
        cn = w.clients[0]
        op = {"len": st["len"], "retry": st["retry"], "cb": False, "api": "send", "kind": 0}
        if who == "c":
            if cn.client is not None and cn.client.connected():
                w.app_send("c0", cn.client, op)
        k.after(st["period"], cn.node, pump, who)
    k.at(st.get("start", 1.0), w.clients[0].node, pump, "c")
    if st.get("client_only"):
        return
    # the server side streams from its handler thread (scripted like any server op)
    t = 1.0
    while t < w.end_time - 2.0:
        w.handler.ops.append({"op": "ssend", "c": 0, "t": t, "len": st["len"], "retry": st["retry"], "cb": False, "api": "send"})
        t += st["period"]


class C04(UdpCheck):
    pid = "C04"
    budget = {"quick": 80, "thorough": 900}
    ncases = {"quick": 300, "thorough": 24000}
    per_run_wall_s = 400
    chunk = 1
    shrink_s = 60
    rule = ("case = traffic (all retry modes, bulk small messages that move the 256-message window, both directions) under "
            "duplication with delays from 0 to seconds, reordering, ack-path loss so that every retry mode retransmits, "
            "one-way partitions, and attacker replays of recorded datagrams after k newer ones for k around 32, 256 and up to "
            "4000; some runs send > 65535 datagrams per direction (sequence wrap).  oracle: deliveries(p) <= sends(p) for "
            "every payload, and every byte-identical copy of an already accepted datagram is rejected with no state change "
            "except dropped+1.  non-trivial = at least one copy of an accepted datagram reached _recv_datagram; distinct = "
            "event-order digest")

    def gen(self, rng, tier, i):
        wrap = (i < 2) if tier == "quick" else (i % 500 < 2)
        return gen_dups(rng, i, tier, wrap=wrap)

    def monitors(self, case):
        self.mon = DupMonitor()
        return [self.mon]

    def prepare(self, w, case):
        Attacker(w, keep=6000)
        w.after_build.append(lambda w_: install_stream(w_, case))

    def nontrivial(self, w, case):
        return self.mon.n_copies > 0

    def judge(self, w, case):
        vs = []
        sent = collections.Counter()
        first = {}
        for rec in w.sends:
            if rec["ok"]:
                k = (rec["who"], rec["peer"], rec["sig"])
                sent[k] += 1
                first.setdefault(k, rec)
        got = collections.Counter()
        old = collections.Counter()
        for (cname, s), n in self.mon.old_accepts.items():
            if cname.startswith("s<"):
                old[(cname.split("<")[1].split("@")[0], "S", s)] += n
            else:
                old[("S", cname.split("#")[0], s)] += n
        for t, receiver, cname, s, msgseq, head in w.delivs:
            if receiver == "S":
                peer = cname.split("<")[1].split("#")[0].split("@")[0]
                got[(peer, "S", s)] += 1
            else:
                got[("S", receiver, s)] += 1
        for k, n in got.items():
            if n > sent.get(k, 0) and sent.get(k, 0) > 0:
                rec = first[k]
                extra = n - sent[k]
                cause = "cause=retransmission-older-than-256-message-window" if old.get(k, 0) >= extra else "cause=unknown"
                vs.append({"kind": "message_delivered_more_often_than_sent",
                           "key": "%s:%s:%s" % ("server" if k[0] == "S" else "client",
                                                "frag" if rec["len"] > limits(case["cfg"]["mtu"])["cap1"] else "single", cause),
                           "detail": {"sender": k[0], "receiver": k[1], "len": k[2][0], "delivered": n, "sent": sent[k],
                                      "retry_of_first": rec["retry"], "t_sent": rec["t"], "accepted_though_older_than_window": old.get(k, 0)}})
        w.probes["copies_of_accepted_datagrams_seen"] += self.mon.n_copies
        if case.get("wrap"):
            if w.net.ordinals.get(("c0", "S"), 0) > 65535:
                w.probe("seq_wrap_crossed_c2s")
            if w.net.ordinals.get(("S", "c0"), 0) > 65535:
                w.probe("seq_wrap_crossed_s2c")
        return vs


CHECK = C04()
