"""Dolev-Yao style attacker: sees the wire, injects any bytes from any claimed source.

It owns no session key and no server private key.  Datagrams are built with the
independent reference codec (world/refmodel.py), never with the repository's classes.
"""
import struct
import random

from world import refmodel as R
from world.udpworld import ATTACKER_MARK, SERVER_ADDR, client_addr
from simkit.net import khash


class Attacker:
    def __init__(self, world, keep=4096):
        self.w = world
        self.net = world.net
        self.log = {}            # link -> list of (wid, t, data)
        self.last_hdr = {}       # sender name -> header dict of its newest datagram
        self.keep = keep
        self.n = 0
        world.net.taps.append(self.tap)
        world.attacker = self
        world.injections = {}
        for name in ("replay", "forge", "garbage", "mutate", "poison"):
            world.custom_ops[name] = getattr(self, "op_" + name)

    def tap(self, wid, t, src, dst, data, fate):
        s, d = self.net.name(src), self.net.name(dst)
        lg = self.log.setdefault("%s>%s" % (s, d), [])
        lg.append((wid, t, data))
        if len(lg) > self.keep:
            del lg[: self.keep // 4]
        if len(data) >= R.HDR:
            self.last_hdr[s] = R.dec_header(data)

    def addr(self, name):
        return SERVER_ADDR if name == "S" else client_addr(int(name[1:]))

    def count(self, gen, n=1):
        self.w.injections[gen] = self.w.injections.get(gen, 0) + n

    def inject(self, frm, to, data, gen, delay=0.0, meta=None):
        self.count(gen)
        self.w.k.rec("inject", gen, frm, to, len(data))
        self.net.inject(self.addr(frm) if isinstance(frm, str) else frm, self.addr(to), data, delay=delay,
                        meta=meta or {"gen": gen})

    # ---- ops (global plan directives) --------------------------------------------
    def op_replay(self, w, _node, op):
        """Re-inject a recorded genuine datagram. op: link 'c0>S', back (k-th most recent) or pick (0..1)."""
        lg = self.log.get(op["link"])
        if not lg:
            return
        if "back" in op:
            idx = len(lg) - 1 - op["back"]
            if idx < 0:
                return
        else:
            idx = int(op.get("pick", 0.5) * len(lg)) % len(lg)
        wid, t, data = lg[idx]
        frm, to = op["link"].split(">")
        for r in range(op.get("times", 1)):
            self.inject(frm, to, data, "replay", delay=op.get("delay", 0.0) + r * 0.001,
                        meta={"gen": "replay", "wid": wid, "age_dgrams": len(lg) - 1 - idx, "orig_t": t})

    def op_poison(self, w, _node, op):
        """The newest genuine datagram of a link with its clear-text sequence number rewritten (the tag no longer fits):
        an endpoint that trusts the header before authenticating it moves its receive window."""
        lg = self.log.get(op["link"])
        if not lg:
            return
        wid, t, data = lg[-1]
        if len(data) < R.HDR:
            return
        h = R.dec_header(data)
        b = bytearray(data)
        b[8:10] = struct.pack(">H", R.ring_add(h["seq"], op.get("off", 32767)))
        frm, to = op["link"].split(">")
        self.inject(frm, to, bytes(b), "poison-seq", meta={"gen": "poison-seq", "off": op.get("off", 32767), "wid": wid})

    def op_forge(self, w, _node, op):
        """CRC-valid plaintext datagram of any type towards `to`, claiming `frm`."""
        frm, to = op["frm"], op["to"]
        to_client = to != "S"
        mine = self.last_hdr.get(frm, {"seq": 0})
        theirs = self.last_hdr.get(to, {"seq": 0})
        seq = R.ring_add(mine["seq"], op.get("seq_off", 1))
        ack = theirs["seq"] if op.get("ack", "all") == "all" else op.get("ack_val", 0)
        bits = 0xFFFFFFFF if op.get("ack", "all") == "all" else op.get("bits", 0)
        inner = op.get("inner", [R.T_APP])
        msgs = []
        for j, t in enumerate(inner):
            body = ATTACKER_MARK + struct.pack(">H", j) + bytes(op.get("pad", 0))
            if t == R.T_APP_FRAGMENT:
                body = struct.pack(">HHH", 1, 1, 1) + body
            msgs.append((R.ring_add(self.last_msgseq(frm), 1 + j), t, body))
        data = R.forge_plain(to_client, op.get("type", R.T_APP), seq, ack, bits, msgs,
                             ctime=op.get("ctime", int(w.k.now) + 1_700_000_000), count=op.get("count"))
        self.inject(frm, to, data, "forge-plain", meta={"gen": "forge", "type": op.get("type", R.T_APP), "inner": inner})

    def last_msgseq(self, frm):
        return 40000        # far from honest traffic; any value is legal for an attacker

    def op_garbage(self, w, _node, op):
        rng = random.Random("garbage|%s|%s" % (w.cfg["seed"], op.get("n", 0)))
        ln = op.get("len", rng.randrange(0, 1600))
        kind = op.get("kind", "random")
        if kind == "random":
            data = rng.randbytes(ln)
        elif kind == "magic":
            data = (R.MAGIC_TO_SERVER if op["to"] == "S" else R.MAGIC_TO_CLIENT) + rng.randbytes(max(0, ln - 4))
        else:   # valid header + random body
            h = R.enc_header(op["to"] != "S", rng.randrange(2 ** 32), rng.randrange(1, 65536), rng.randrange(65536),
                             rng.randrange(8), min(ln, 65535), rng.randrange(256), rng.randrange(2 ** 32))
            data = h + rng.randbytes(ln)
        self.inject(op["frm"], op["to"], data, "garbage-" + kind)

    def op_mutate(self, w, _node, op):
        """Bit-flip / truncate / extend / re-type the most recent genuine datagram on a link."""
        lg = self.log.get(op["link"])
        if not lg:
            return
        wid, t, data = lg[-1 - min(op.get("back", 0), len(lg) - 1)]
        frm, to = op["link"].split(">")
        how = op["how"]
        b = bytearray(data)
        if how == "flip":
            bit = op["bit"] % (len(b) * 8)
            b[bit // 8] ^= 1 << (bit % 8)
        elif how == "trunc":
            b = b[: op["n"] % max(1, len(b))]
        elif how == "extend":
            b += bytes(op["n"])
        elif how == "retype":
            b[12] = op["type"]
            if op.get("fixcrc"):
                b = bytearray(R.seal_crc(bytes(b[:R.HDR]), bytes(b[R.HDR:R.HDR + R.dec_header(bytes(b))["length"]])))
        self.inject(frm, to, bytes(b), "mutate-" + how, meta={"gen": "mutate", "how": how, "wid": wid})
