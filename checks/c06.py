"""C06 - fragmentation and reassembly preserve bytes; nothing is fabricated."""
import struct
import random
import collections

from checks.common import UdpCheck, gen_traffic, limits, Monitor, FragExpiryProbe
from checks.c05 import open_pairs, lenclass
from world.udpworld import sig, PacketType

FRAG_LIMIT = 1024 * 0x2000


def frag_limit(mtu):
    return limits(mtu)["frag"] * 0x2000


class FragWire(Monitor):
    """Watches what leaves _build_packet: APP vs APP_FRAGMENT, and reassembles fragments independently."""
    wants_build = True

    def attach(self, world):
        self.w = world
        self.app = collections.defaultdict(list)       # conn name -> [(len, sig)] of APP messages first seen
        self.frags = {}                                # (conn name, frag_id) -> {index: bytes}, count
        self.finished = []                             # records of ids that were reused later
        self.seen_msg = set()

    def on_build(self, conn, pkt, pre=None):
        cn = self.w.conn_name(conn)
        for m in pkt.msgs:
            k = (cn, int(m.seq), m.type.value)
            if m.type.value == PacketType.APP.value:
                if k not in self.seen_msg:
                    self.seen_msg.add(k)
                    self.app[cn].append((len(m.payload), sig(m.payload)))
            elif m.type.value == PacketType.APP_FRAGMENT.value:
                p = m.payload
                if len(p) < 6:
                    self.w.violation("fragment_without_header", {"conn": cn, "len": len(p)})
                    continue
                fid, idx, cnt = struct.unpack(">HHH", p[:6])
                f = self.frags.get((cn, fid))
                if f is not None and len(f["parts"]) == f["count"] and (cnt != f["count"] or f["parts"].get(idx) != p[6:]):
                    # the 16-bit fragment id was reused for a new message: file the finished one away
                    self.finished.append(((cn, fid), f))
                    f = None
                if f is None:
                    f = self.frags[(cn, fid)] = {"count": cnt, "parts": {}, "bad": 0}
                if cnt != f["count"] or not (1 <= idx <= cnt):
                    f["bad"] += 1
                    continue
                if idx in f["parts"] and f["parts"][idx] != p[6:]:
                    f["bad"] += 1
                f["parts"][idx] = bytes(p[6:])


class C06(UdpCheck):
    pid = "C06"
    budget = {"quick": 70, "thorough": 900}
    ncases = {"quick": 700, "thorough": 40000}
    per_run_wall_s = 1500
    chunk = 1
    shrink_s = 30
    rule = ("case = swarm config + plan of sends in all retry modes, lengths stratified around 0, the single-datagram capacity "
            "and multiples of the fragment size (incl. enlarged last fragment), 5 content kinds (one imitating fragment "
            "headers), several fragmented messages in flight at once, over-limit sends (8 MiB+1..+1024), under loss / "
            "duplication / reordering; non-trivial = a fault fired and a fragmented message was delivered; distinct = "
            "event-order digest")

    def gen(self, rng, tier, i):
        if (i == 0) if tier == "quick" else (i % 5000 == 0):
            return self.gen_fragwrap(rng, tier, i)
        faulty = rng.random() < 0.75
        case = gen_traffic(rng, i, tier, retries=(0, 0, 1, -1), cb_p=0.3, fault=faulty)
        cfg, plan = case["cfg"], case["plan"]
        mtu = cfg["mtu"]
        cap1 = limits(mtu)["cap1"]
        # make sure several fragmented messages are in flight together
        sends = [op for op in plan if op["op"] in ("send", "ssend")]
        # (these extra messages respect the same offered-load bound as gen_traffic: what the sender can put on the
        # wire in ~1.5 s, divided by the number of copies a retried message costs at this round trip)
        rtt = 2 * (cfg["latency"] + cfg["jitter"]) + 2 * cfg["reactor_lag"] + 2 * max(cfg["server"]["interval"], 1 / 60)
        if sends and rng.random() < 0.7:
            base = rng.choice(sends)
            period = max(cfg["server"]["interval"], 1 / 60) if base["op"] == "ssend" else max(cfg["clients"][base["c"]]["dt"], 1 / 60)
            factor = (1 + int(rtt / 0.1)) if base["retry"] != 0 else 1
            room_bytes = int(1.5 * limits(mtu)["frag"] / period / factor)
            nextra = rng.choice([2, 3, 5])
            for j in range(nextra):
                op = dict(base)
                op["len"] = cap1 + 1 + rng.randrange(0, max(1, min(6000, room_bytes // nextra)))
                op["kind"] = rng.choice([0, 2, 2, 3])
                plan.append(op)
        if rng.random() < (0.08 if tier == "quick" else 0.15):
            op = dict(rng.choice(sends)) if sends else None
            if op:
                # (the limit is MAX_FRAGMENTS fragments of the fragment size of THIS run's MTU: smaller below MTU 1096)
                op["len"] = frag_limit(mtu) + rng.choice([1, 2, 17, 1024])
                op["kind"] = 1
                op["over_limit"] = True
                plan.append(op)
        rng2 = random.Random("c06-mutable|%s" % (rng.getstate()[1][:3],))       # (does not consume from the main stream)
        if sends and rng2.random() < 0.25:
            # a few sends hand over a bytearray that the application overwrites right after the call (all retry modes, so
            # that a retransmission would read the buffer again)
            for op in rng2.sample(sends, min(len(sends), rng2.choice([1, 2, 4]))):
                op["mutable"] = True
        case["fault_free"] = not faulty
        return case

    def gen_fragwrap(self, rng, tier, i):
        """More than 65535 fragmented messages on one connection: the 16-bit fragment id wraps and ids are reused."""
        case = gen_traffic(rng, i, tier, nclients=1, n_msgs=2, long_latency=False, fault=False, entry="bare", settle=4.0)
        cfg = case["cfg"]
        cfg["mtu"] = 512
        cap1 = limits(512)["cap1"]
        cfg["clients"][0]["dt"] = 1 / 59
        cfg["server"]["interval"] = 1 / 59
        cfg["server"]["configure_after_construction"] = False
        cfg["latency"], cfg["jitter"] = 0.003, 0.0
        n = 65535 + 320
        cfg["duration"] = round(1.0 + n * 2.05 / 59 + 6.0, 2)
        cfg["stub_sleep"] = True
        cfg["max_events"] = 100_000_000
        cfg["phases"] = []
        cfg["t_heal"] = cfg["duration"] - 5.0
        cfg["stream"] = {"period": 2.05 / 59, "len": cap1 + 1, "retry": 0, "client_only": True, "stop": 1.0 + n * 2.05 / 59}
        case["plan"] = [op for op in case["plan"] if op["op"] == "connect"]
        case["fault_free"] = True
        case["fragwrap"] = True
        return case

    def prepare(self, w, case):
        if case.get("fragwrap"):
            from checks.c04 import install_stream
            w.after_build.append(lambda w_: install_stream(w_, case))

    def monitors(self, case):
        self.mon = FragWire()
        self.fx = FragExpiryProbe()
        return [self.mon, self.fx]

    def nontrivial(self, w, case):
        cap1 = limits(case["cfg"]["mtu"])["cap1"]
        return bool(sum(w.decider.counts.values())) and any(d[3][0] > cap1 for d in w.delivs)

    def judge(self, w, case):
        vs = []
        mtu = case["cfg"]["mtu"]
        cap1 = limits(mtu)["cap1"]
        sent_by = collections.defaultdict(collections.Counter)     # (sender, receiver) -> Counter(sig)
        for rec in w.sends:
            sent_by[(rec["who"], rec["peer"])][rec["sig"]] += 1
            if rec["len"] > frag_limit(mtu):
                if rec["ok"] is not False or rec.get("exc") != "ValueError":
                    vs.append({"kind": "over_limit_not_refused", "key": "ok=%s:exc=%s" % (rec["ok"], rec.get("exc")),
                               "detail": {"len": rec["len"], "who": rec["who"]}})
                if rec.get("q1") != rec.get("q0"):
                    vs.append({"kind": "over_limit_queued_something", "key": "",
                               "detail": {"len": rec["len"], "q0": rec.get("q0"), "q1": rec.get("q1")}})
        # 1. everything delivered was sent by the peer, byte for byte
        for t, receiver, cname, s, msgseq, head in w.delivs:
            if receiver == "S":
                peer = cname.split("<")[1].split("#")[0].split("@")[0]
                ok = s in sent_by[(peer, "S")]
            else:
                ok = s in sent_by[("S", receiver)]
            if not ok:
                vs.append({"kind": "delivered_not_sent", "key": "%s:%s" % ("server" if receiver == "S" else "client",
                                                                            "frag" if s[0] > cap1 else "single"),
                           "detail": {"receiver": receiver, "len": s[0], "head": head.hex(), "t": t, "mtu": mtu}})
        # 2. wire shape: small payloads travel as one APP message, large ones only as fragments
        name_of = {}
        for inc in w.incarnations:
            name_of[w.conn_name(inc["conn"])] = (inc["name"], "S")
        for sc in w.all_server_conns:
            name_of[w.conn_name(sc)] = ("S", w.net.name(sc.addr))
        for cn, lst in self.mon.app.items():
            who = name_of.get(cn)
            if who is None:
                continue
            for ln, s in lst:
                if ln > cap1:
                    vs.append({"kind": "oversized_app_message_on_wire", "key": "", "detail": {"len": ln, "cap1": cap1}})
                elif s not in sent_by[who]:
                    vs.append({"kind": "app_message_on_wire_not_sent", "key": "", "detail": {"len": ln, "conn": cn}})
        for (cn, fid), f in list(self.mon.frags.items()) + self.mon.finished:
            who = name_of.get(cn)
            if f["bad"]:
                vs.append({"kind": "inconsistent_fragment_headers", "key": "", "detail": {"conn": cn, "frag_id": fid}})
            if who is None or len(f["parts"]) != f["count"]:
                continue
            whole = b"".join(f["parts"][i] for i in range(1, f["count"] + 1))
            if len(whole) <= cap1:
                vs.append({"kind": "small_payload_fragmented", "key": "", "detail": {"len": len(whole), "cap1": cap1}})
            if sig(whole) not in sent_by[who]:
                vs.append({"kind": "fragments_do_not_reassemble_to_sent_payload", "key": lenclass(mtu, len(whole)),
                           "detail": {"len": len(whole), "count": f["count"], "conn": cn}})
        # 3. loss-free link: unretried sends arrive exactly once (equality of multisets)
        if case.get("fault_free") and not sum(w.decider.counts.values()):
            dl = collections.Counter((d[1], d[3]) for d in w.delivs)
            for cnode, cconn, sconn in open_pairs(w):
                for rec in w.sends:
                    if rec["ok"] is not True or rec["status"] != "CONNECTED" or rec["len"] > frag_limit(case["cfg"]["mtu"]):
                        continue
                    if rec["t"] > case["cfg"]["t_heal"]:
                        continue
                    if rec.get("on_connect") and rec["retry"] == 0:
                        # sent from the connect callback: a datagram that overtakes the challenge response (jitter) is
                        # discarded by the server's handshake gate - for an unretried send that is ordinary loss
                        continue
                    if rec["who"] == cnode.name:
                        key = ("S", rec["sig"])
                    elif rec["who"] == "S" and rec["peer"] == cnode.name:
                        key = (cnode.name, rec["sig"])
                    else:
                        continue
                    if dl[key] < 1:
                        side = "server" if rec["who"] == "S" else "client"
                        cause, purged = self.fx.cause(w, rec, w.conn_name(sconn if rec["who"] != "S" else cconn))
                        vs.append({"kind": "lossfree_not_delivered", "key": "%s:%s:%s" % (side, lenclass(mtu, rec["len"]), cause),
                                   "detail": {"len": rec["len"], "retry": rec["retry"], "api": rec["api"], "mtu": mtu,
                                              "who": rec["who"], "t": rec["t"], "purged": purged}})
        return vs


CHECK = C06()
