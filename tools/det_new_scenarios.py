import sys, os, json, subprocess
sys.path.insert(0, os.environ.get("VERIF_REPO", "/repo")); sys.path.insert(0, "/verif")
import importlib
sel = {
 "c10": lambda c: any(o["op"] == "rehello" or (o["op"] == "disconnect" and o.get("wait")) or o["op"] == "sblock" for o in c["plan"]),
 "c11": lambda c: any(o["op"] in ("winsock",) for o in c["plan"]) or sum(1 for o in c["plan"] if o["op"] == "recvreset") > 10,
 "c12": lambda c: c["cfg"].get("late_answer") or c["cfg"].get("junk_during_attempt") or any(o["op"] == "garbage" for o in c["plan"]),
 "c04": lambda c: any(o["op"] == "poison" or (o["op"] == "disconnect" and o.get("wait")) for o in c["plan"]),
 "c05": lambda c: any(o["op"] == "csockerr" for o in c["plan"]),
 "c06": lambda c: any(o.get("mutable") for o in c["plan"]),
 "c01": lambda c: any(o["op"] == "connect" and o.get("pinned") is False for o in c["plan"]),
}
mode = sys.argv[1] if len(sys.argv) > 1 else "both"
out = {}
for name, pred in sel.items():
    ch = importlib.import_module("checks." + name).CHECK
    n = 0
    for i, case in ch.cases("quick", 1):
        if i > 400:
            break
        if "plan" not in case or not pred(case):
            continue
        r1 = ch.execute(json.loads(json.dumps(case)))
        if mode == "both":
            r2 = ch.execute(json.loads(json.dumps(case)))
            assert r1["digest"] == r2["digest"], (name, i, "same-process digests differ")
        out["%s:%d" % (name, i)] = r1["digest"]
        n += 1
        if n >= 5:
            break
    print(name, n, "cases", file=sys.stderr)
print(json.dumps(out, sort_keys=True))
