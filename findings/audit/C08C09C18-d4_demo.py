"""
C08: BitField.contains() on a window into which nothing has been inserted yet
reports that sequence number 65535 is present.  The empty window keeps
current_seqnum = SeqNum(0) as an 'uninitialised' marker; insert() guards for it
but contains() does not, and on the 65535 element ring 0 and 65535 are the same
point (SeqNum(0).diff(SeqNum(65535)) == 0), so the 'diff == 0 -> True' branch
fires.  The same aliasing makes an ack number of 0 ("nothing received yet")
compare equal to datagram 65535 in ConnectionBase._handle_ack_bits.
"""
from mpgameserver.connection import SeqNum, BitField, DuplicationError

failures = []

for nbits in (8, 16, 32, 64, 128, 256):
    # model: the set of inserted numbers; here the history is empty
    field = BitField(nbits)
    reported = [v for v in range(1, 65536) if field.contains(SeqNum(v))]
    if reported:
        failures.append("nbits=%d: empty window claims to contain %r" % (nbits, reported))

    # the window itself knows that 65535 was never received: inserting it
    # is not flagged as a duplicate
    field = BitField(nbits)
    said_present = field.contains(SeqNum(65535))
    try:
        field.insert(SeqNum(65535))
        flagged_duplicate = False
    except DuplicationError:
        flagged_duplicate = True
    if said_present != flagged_duplicate:
        failures.append("nbits=%d: contains(65535)=%s but insert(65535) duplicate=%s on an empty window"
            % (nbits, said_present, flagged_duplicate))

for f in failures:
    print("FAIL", f)
assert not failures, "window bookkeeping is not exact for the empty history"
print("ok")
