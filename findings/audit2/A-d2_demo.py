"""
C01 - "a datagram that was not produced with that key ... is discarded without
delivering any message to the application"

UdpServerThread.run() only hands client.incoming_messages to
EventHandler.handle_message() in the branch for established connections, and
it does so after *every* datagram that arrives from that address, whether
_recv_datagram() accepted it or not.  The branch for connections that are still
in the handshake (temp_connections) never dispatches.  A client that queues its
first message from the connect callback sends it in the same datagram as the
CHALLENGE_RESP (one packet, header type CHALLENGE_RESP, two messages): the
server completes the handshake, acks the datagram, and keeps the application
message in client.incoming_messages.

The next datagram with the client's source address flushes it - including a
forged one that fails AES-GCM authentication.  The server application receives
a message as the direct result of an unauthenticated datagram; nothing is
delivered while no such datagram arrives.

The real UdpServerThread.run() is executed in this thread; the scenario is
scripted from EventHandler.update(), which the loop calls once per tick.

run: PYTHONPATH=/tmp/aud2/A /venv/bin/python d2_demo.py
"""
import os
import sys
import logging

from mpgameserver.connection import PacketHeader, PacketType, \
    ClientServerConnection, ConnectionStatus
from mpgameserver.context import ServerContext
from mpgameserver.handler import EventHandler
from mpgameserver.server import UdpServerThread
from mpgameserver.crypto import EllipticCurvePrivateKey

logging.disable(logging.CRITICAL)

CLIENT_ADDR = ('10.0.0.2', 40000)

class MockSocket(object):
    def __init__(self):
        self.sent = []
    def sendto(self, datagram, addr):
        self.sent.append((datagram, addr))

class Clock(object):
    def __init__(self):
        self.t = 1000.0
    def __call__(self):
        return self.t

class Handler(EventHandler):
    """ records the server events and drives the scripted client """

    def __init__(self):
        super().__init__()
        self.events = []
        self.step = 0
        self.idle_ticks = 0
        self.delivered_before = None
        self.delivered_after = None
        self.ticks = 0

    def connect(self, client):
        self.events.append("connect")

    def disconnect(self, client):
        self.events.append("disconnect")

    def handle_message(self, client, seqnum, msg):
        self.events.append(("message", msg))

    def delivered(self):
        return [e for e in self.events if isinstance(e, tuple)]

    def update(self, delta_t):
        self.ticks += 1
        if self.ticks > 600:
            ctxt._active = False   # safety net

        if self.step == 0:
            # the client says hello
            clock.t += 0.02
            pkt = conn._build_packet()
            inject(conn._encode_packet(pkt))
            self.step = 1

        elif self.step == 1 and sock.sent:
            # SERVER_HELLO: the client connects, its connect callback queues
            # the first application message. both leave in one datagram.
            datagram, addr = sock.sent.pop(0)
            conn._recv_datagram(PacketHeader.from_bytes(False, datagram), datagram)
            assert conn.status == ConnectionStatus.CONNECTED
            clock.t += 0.02
            pkt = conn._build_packet()
            assert pkt.hdr.pkt_type == PacketType.CHALLENGE_RESP and pkt.hdr.count == 2
            self.genuine = conn._encode_packet(pkt)
            inject(self.genuine)
            self.step = 2

        elif self.step == 2 and "connect" in self.events:
            # the handshake is complete. let the server run a few ticks on
            # its own: nothing is delivered
            self.idle_ticks += 1
            if self.idle_ticks == 5:
                self.delivered_before = list(self.delivered())
                # an attacker sends garbage using the client's source address:
                # a genuine header followed by random bytes
                # (it does not authenticate under the session key)
                forged = self.genuine[:20] + os.urandom(len(self.genuine) - 20)
                server_conn = ctxt.connections[CLIENT_ADDR]
                self.snapshot = (server_conn.stats.received, server_conn.stats.dropped)
                inject(forged)
                self.step = 3

        elif self.step == 3:
            server_conn = ctxt.connections[CLIENT_ADDR]
            if server_conn.stats.dropped > self.snapshot[1]:
                # the forged datagram was processed (and rejected by the connection)
                assert server_conn.stats.received == self.snapshot[0]
                self.delivered_after = list(self.delivered())
                ctxt._active = False

def inject(datagram):
    # what _UdpServer.run / TwistedServer.datagramReceived do
    hdr = PacketHeader.from_bytes(True, datagram)
    thread.append(CLIENT_ADDR, hdr, datagram)

root = EllipticCurvePrivateKey.new()
handler = Handler()
ctxt = ServerContext(handler, root)
sock = MockSocket()
thread = UdpServerThread(sock, ctxt)

clock = Clock()
conn = ClientServerConnection(('10.0.0.1', 1474))
conn.clock = clock
conn.setServerPublicKey(root.getPublicKey())
conn.connection_callback = lambda ok: conn.send(b"login: alice")
conn._sendClientHello()

thread.run()     # runs in this thread until the script stops it

print("events:", handler.events)
print("delivered before the forged datagram:", handler.delivered_before)
print("delivered after  the forged datagram:", handler.delivered_after)

if handler.delivered_after is None:
    print("scenario did not complete")
    sys.exit(2)

if handler.delivered_before != handler.delivered_after:
    print("C01 violated: a datagram that failed authentication made the server "
          "deliver %r to the application" % (handler.delivered_after[len(handler.delivered_before):],))
    sys.exit(1)
print("ok")
