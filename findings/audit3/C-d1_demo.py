#!/venv/bin/python
"""
d1: on a loss-free, in-order, duplicate-free network a guaranteed fragmented
message is never delivered when it is sent while a few seconds worth of other
messages are still queued.

t=0   for i in range(300): server.send_guaranteed(chunk_i)   300 x 1000 bytes (5 s of datagrams at 60 Hz)
t=0   server.send_guaranteed(B)      B = 1440 bytes -> 2 fragments: 1024 + 416
t=3   server.send_guaranteed(C)      C = 1440 bytes -> 2 fragments: 1024 + 416

Every datagram carries one 1000 byte chunk and has 431 bytes of room left. The
first-fit packet builder puts B's tail fragment 2/2 (422 bytes) into that room
of the very first datagram, while B's fragment 1/2 (1030 bytes) fits nowhere
until the 300 chunks are gone (t=5 s).  In the same way the tail of C leaves
immediately at t=3. When it arrives the receiver has heard nothing of B for
3 s > 1 + 0.5*2 s and throws B's partial message away; when B's fragment 1/2
finally arrives it can never complete.  Every datagram was delivered and
acknowledged, the sender's callback for B reports success, the connection
stays open - but B is never handed to the application.

exit status 0: all messages delivered exactly once; 1: violation
"""
import sys, os, logging
sys.path.insert(0, os.path.join(os.path.dirname(os.path.abspath(__file__)), ".."))
logging.disable(logging.CRITICAL)

import mpgameserver.connection as C
from mpgameserver.connection import (ClientServerConnection, ServerClientConnection,
    PacketHeader, Packet, ConnectionStatus, RetryMode)
from mpgameserver.context import ServerContext
from mpgameserver.handler import EventHandler

# ---- one fake clock for everything (conn.clock and the module's time) ----
class FakeTime(object):
    now = 1000.0
    def time(self):
        return self.now
FT = FakeTime()
C.time = FT

Packet.setMTU(1500)

ctxt = ServerContext(EventHandler(), None)
client = ClientServerConnection(('10.0.0.1', 1111))
server = ServerClientConnection(ctxt, ('10.0.0.2', 2222))
for conn in (client, server):
    conn.clock = FT.time
    conn.send_keep_alive_interval = .1
ctxt.temp_connections[server.addr] = server

to_server = []   # perfect network: every datagram is delivered, once, in order,
to_client = []   # one frame after it was sent
client_got = []
server_got = []
max_datagram = 0
first_datagram_with_B = []

def frame():
    """one 60Hz frame of UdpClient.update() and of the UdpServerThread loop"""
    global max_datagram
    FT.now += 1/60 + 0.0001
    # --- client (same steps as UdpClient.update)
    client.update()
    while to_client:
        dg = to_client.pop(0)
        client._recv_datagram(PacketHeader.from_bytes(False, dg), dg)
    t0 = client.clock()
    if t0 - client.last_send_time > client.send_interval:
        pkt = client._build_packet()
        if pkt is not None:
            dg = client._encode_packet(pkt)
            max_datagram = max(max_datagram, len(dg))
            to_server.append(dg)
        client._check_timeout(t0)
    client_got.extend(m for _, m in client.incoming_messages)
    client.incoming_messages = []
    # --- server (same steps as UdpServerThread.run)
    while to_server:
        dg = to_server.pop(0)
        server._recv_datagram(PacketHeader.from_bytes(True, dg), dg)
    server_got.extend(m for _, m in server.incoming_messages)
    server.incoming_messages = []
    out = server.update()
    if out is not None:
        pkt, key, addr = out
        dg = pkt.to_bytes(key)
        max_datagram = max(max_datagram, len(dg))
        to_client.append(dg)
        for m in pkt.msgs:
            if m.payload[6:7] in (b"B", b"C") and len(m.payload) in (1030, 422):
                first_datagram_with_B.append((m.payload[6:7].decode(), round(FT.now - T0, 2), len(m.payload)))

# ---- handshake
client._sendClientHello()
for i in range(10):
    frame()
assert client.status == ConnectionStatus.CONNECTED, client.status
assert server.status == ConnectionStatus.CONNECTED, server.status

# ---- 300 guaranteed 1000 byte messages and a guaranteed 1440 byte message; 3 s later another one
chunks = [i.to_bytes(2, 'big') * 500 for i in range(300)]
B = b"B" * 1440
C_MSG = b"C" * 1440
assert len(B) > Packet.MAX_PAYLOAD_SIZE
results = {}
T0 = FT.now
for chunk in chunks:
    server.send_guaranteed(chunk)
server.send_guaranteed(B, callback=lambda ok: results.__setitem__('B', ok))

for i in range(60 * 30):     # 30 seconds, far more than needed (everything is sent after ~5 s)
    if i == 180:
        server.send_guaranteed(C_MSG, callback=lambda ok: results.__setitem__('C', ok))
    frame()

ok = True
print("connection: client=%s server=%s" % (client.status, server.status))
print("largest datagram: %d (limit %d)" % (max_datagram, Packet.MAX_SIZE))
print("fragments of B and C left the sender at (message, seconds, fragment payload size): %r" % first_datagram_with_B)
print("sender callbacks: %r" % (results,))
print("sender queue empty: %s, unacked datagrams: %d, pending fragment senders: %d" % (
    not server.outgoing_messages, len(server.pending_acks), len(server.pending_fragments)))
print("client application received %d message(s), %d of them of 1000 bytes" % (
    len(client_got), sum(1 for m in client_got if len(m) == 1000)))
bad = [i for i, chunk in enumerate(chunks) if client_got.count(chunk) != 1]
if bad:
    print("FAIL: chunks not delivered exactly once: %r" % bad); ok = False
if client_got.count(B) != 1:
    print("FAIL: guaranteed message B (%d bytes) delivered %d times although no datagram was lost"
        % (len(B), client_got.count(B))); ok = False
    stale = dict((fid, [i + 1 for i, f in enumerate(r.fragments) if f is not None])
        for fid, r in client.received_fragments.items())
    print("      receiver is left with incomplete contexts {frag_id: [fragment indexes]}: %r" % stale)
if client_got.count(C_MSG) != 1:
    print("FAIL: guaranteed message C delivered %d times" % client_got.count(C_MSG)); ok = False
if any(m != B and m != C_MSG and m not in chunks for m in client_got):
    print("FAIL: fabricated message"); ok = False
if client.status != ConnectionStatus.CONNECTED or server.status != ConnectionStatus.CONNECTED:
    print("note: connection did not stay open")
sys.exit(0 if ok else 1)
