"""C18 - which frames reach the endpoint depends on how the TCP stream was
cut when the endpoint callback raises for one frame.

A client sends three valid, complete, masked text frames "one", "two",
"three". The application callback raises for "two" (a bug in the application,
or e.g. json.loads on a message it does not understand as in demo/chat).

WebSocketTemporaryHandler.__call__ loops over the complete frames in its
buffer and lets the exception escape from the loop ("# TODO: catch and
close?"). The frames that arrived in the same read behind the offending one
stay in the buffer; nothing looks at them again until more bytes arrive.

  cut A (one frame per read)  -> endpoint sees one, two, three
  cut B (all in one read)     -> endpoint sees one, two        ("three" is stuck)

The driver below behaves like a server that logs an application error and
keeps the connection. Under the real twisted reactor the escaping exception
makes the reactor drop the TCP connection without a Close frame, so "three"
is lost for good in cut B.
"""
import sys
# ---- helpers (mock twisted request, mock endpoint, RFC 6455 client encoder) ----
import struct

from mpgameserver.http_server import (
    WebSocketTemporaryHandler, WebSocketTemporaryRingBuffer)


def client_frame(fin, opcode, payload, key=b"\x11\x22\x33\x44", rsv=0):
    """encode one masked client frame exactly as RFC 6455 section 5.2 says
    (independent of the library's encoder)"""
    b0 = (fin << 7) | (rsv << 4) | opcode
    n = len(payload)
    if n <= 125:
        hdr = struct.pack("!BB", b0, 0x80 | n)
    elif n <= 0xFFFF:
        hdr = struct.pack("!BBH", b0, 0x80 | 126, n)
    else:
        hdr = struct.pack("!BBQ", b0, 0x80 | 127, n)
    masked = bytes(c ^ key[i % 4] for i, c in enumerate(payload))
    return hdr + key + masked


class FakeTwistedRequest(object):
    """stands in for the twisted http.Request the ring buffer writes to"""
    def __init__(self):
        self.chunked = 1
        self.written = []

    def write(self, data):
        self.written.append(bytes(data))


class Endpoint(object):
    """stands in for the Route object: records every callback"""
    def __init__(self, raise_on=None):
        self.delivered = []
        self.raise_on = raise_on

    def callback(self, handler, opcode, payload):
        if isinstance(payload, (bytearray, memoryview)):
            payload = bytes(payload)
        self.delivered.append((opcode.value, payload))
        if self.raise_on is not None and payload == self.raise_on:
            raise RuntimeError("application error while handling %r" % (payload,))


def make_handler(endpoint):
    request = FakeTwistedRequest()
    buf = WebSocketTemporaryRingBuffer(request)
    handler = WebSocketTemporaryHandler(("127.0.0.1", 50000), {}, {}, buf, endpoint)
    return handler, request


def feed(handler, chunks):
    """give the handler the tcp reads one after the other. an exception that
    escapes from the handler is recorded, the following reads are still fed
    (what was raised is printed by the caller)"""
    errors = []
    for chunk in chunks:
        try:
            handler(chunk)
        except Exception as e:
            errors.append("%s: %s" % (type(e).__name__, e))
    return errors
# ---- end of helpers ----


frames = [client_frame(1, 0x1, s) for s in (b"one", b"two", b"three")]
stream = b"".join(frames)

cuts = {
    "A one frame per read": frames,
    "B all frames in one read": [stream],
    "C cut inside frame 1, rest in 2nd read": [stream[:4], stream[4:]],
}

results = {}
for name, chunks in cuts.items():
    assert b"".join(chunks) == stream
    endpoint = Endpoint(raise_on="two")
    handler, _ = make_handler(endpoint)
    errors = feed(handler, chunks)
    results[name] = [p for _, p in endpoint.delivered]
    print("%-40s delivered=%r" % (name, results[name]))
    print("%-40s escaped=%r left in buffer=%r" % ("", errors, handler._buffer.buf))

expected = ["one", "two", "three"]
bad = {k: v for k, v in results.items() if v != expected}
if bad:
    print()
    for k, v in bad.items():
        print("VIOLATION: cut %s: endpoint saw %r, expected %r "
              "(same byte stream, only the read boundaries differ)" % (k, v, expected))
    sys.exit(1)
print("ok")
