#!/venv/bin/python
"""
d2 (property C08, last sentence): before the session key exists the client
records the datagram and message sequence number of an UNAUTHENTICATED
datagram in its receive windows before the server-hello signature has been
checked. One forged server-hello (valid CRC, signature that does not verify
against the pinned server key) makes the client flag the genuine, correctly
signed server-hello as a duplicate - although it was never received - and the
connection attempt fails.

Real UdpClient (with an in-memory socket) against a real ServerClientConnection,
fake clock, deterministic.

exit 0: the genuine server hello is accepted in every run
exit 1: the genuine server hello was flagged duplicate / ignored
"""
import os
import sys
import logging

sys.path.insert(0, os.path.join(os.path.dirname(os.path.abspath(__file__)), ".."))
logging.disable(logging.CRITICAL)

from mpgameserver import crypto
from mpgameserver.client import UdpClient
import mpgameserver.client as client_module
from mpgameserver.connection import (ServerClientConnection, PacketHeader, Packet,
    PacketType, PendingMessage, SeqNum, ConnectionStatus, HandshakeServerHelloMessage)
from mpgameserver.context import ServerContext
from mpgameserver.handler import EventHandler

NOW = [1_700_000_000.0]
def clock():
    return NOW[0]

SERVER_ADDR = ("10.0.0.2", 7000)
CLIENT_ADDR = ("10.0.0.1", 50000)

class FakeSocket(object):
    def __init__(self):
        self.inbox = []
        self.sent = []
    def sendto(self, datagram, addr):
        self.sent.append(datagram)
    def recvfrom(self, n):
        return self.inbox.pop(0)
    def close(self):
        pass

def fake_select(r, w, x, timeout=None):
    return [s for s in r if s.inbox], list(w), []

client_module.select.select = fake_select
UdpClient._make_socket = lambda self, addr: FakeSocket()

def forged_server_hello(seq, msgseq):
    """what anybody who can send a UDP datagram to the client's port can build:
    a server hello signed with a key of his own, with a correct crc32"""
    evil = crypto.EllipticCurvePrivateKey.new()
    m = HandshakeServerHelloMessage()
    m.token = 0x40000001
    m.salt = b"\x00" * 16
    m.server_pubkey = evil.getPublicKey()
    payload = m.dumpb(server_root_key=evil)
    hdr = PacketHeader.create(True, int(NOW[0]), PacketType.SERVER_HELLO,
        SeqNum(seq), SeqNum(1), 0)
    pkt = Packet.create(hdr, [PendingMessage(SeqNum(msgseq), PacketType.SERVER_HELLO, payload, None, 0)])
    return pkt.to_bytes(None)

def run(name, forged):
    """:param forged: None, or (datagram seq, message seq) of the forged hello
    that reaches the client just before the genuine one"""
    NOW[0] = 1_700_000_000.0
    root = crypto.EllipticCurvePrivateKey.new()
    ctxt = ServerContext(EventHandler(), root)
    server = ServerClientConnection(ctxt, CLIENT_ADDR)
    server.clock = clock
    ctxt.temp_connections[CLIENT_ADDR] = server

    result = []
    client = UdpClient(server_public_key=root.getPublicKey())   # pinned key
    client.connect(SERVER_ADDR, callback=result.append)
    client.conn.clock = clock

    NOW[0] += 0.02
    client.update()                                   # sends the client hello
    hello = client.sock.sent.pop(0)
    server._recv_datagram(PacketHeader.from_bytes(True, hello), hello)
    NOW[0] += 0.02
    pkt, key, addr = server.update()
    genuine = pkt.to_bytes(key)                       # the signed server hello
    ghdr = PacketHeader.from_bytes(False, genuine)

    raised = None
    if forged is not None:
        client.sock.inbox.append((forged_server_hello(*forged), ("10.6.6.6", 666)))
        NOW[0] += 0.001
        try:
            client.update()
        except Exception as e:          # a careful application survives this
            raised = type(e).__name__

    dropped = client.conn.stats.dropped
    client.sock.inbox.append((genuine, SERVER_ADDR))
    NOW[0] += 0.001
    client.update()

    ok = client.connected() and client.conn.session_key_bytes is not None
    print("%-58s forged hello raised out of update(): %-16s genuine hello (seq=%d, msg seq=1): %s" % (
        name, raised, ghdr.seq,
        "accepted, connected" if ok else
        "NOT accepted: status=%s stats.dropped %+d window newest=%d msg window newest=%d" % (
            str(client.conn.status), client.conn.stats.dropped - dropped,
            client.conn.bitfield_pkt.current_seqnum, client.conn.bitfield_msg.current_seqnum)))
    return ok

results = [
    run("control: no forged datagram", None),
    run("forged hello with datagram seq 1, message seq 1", (1, 1)),
    run("forged hello with datagram seq 2, message seq 1", (2, 1)),
    run("forged hello with datagram seq 40, message seq 300", (40, 300)),
]

if not all(results):
    print("FAIL: C08 violated - the genuine server hello was flagged duplicate / too old "
          "because an unauthenticated forged datagram had been entered into the receive windows")
    sys.exit(1)
print("OK")
sys.exit(0)
