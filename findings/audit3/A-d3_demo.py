#!/venv/bin/python
"""
C12 - a connect attempt that timed out is reported a second time, as success

A real UdpClient talks to real ServerClientConnection objects (the body of
UdpServerThread.run is mirrored by MiniServer.step) over an in-memory network
with a fake clock. The network is lossless, one way latency 80 ms (round trip
160 ms + server tick). No stalls: update() is called 60 times per second.

  client.setConnectionTimeout(0.1)        # before connect()
  client.connect(addr, callback)

No answer arrives within the configured 0.1 s, so the attempt ends at t=0.1:
status DISCONNECTED, callback(False). That is what the property asks for.
But the attempt is not over: ClientServerConnection._recvServerHello accepts
the SERVER_HELLO in any state. When it arrives at t=0.17 the status flips to
CONNECTED, the CHALLENGE_RESP is sent, the callback is called a second time
with True and the server raises its connect event for a client whose
application was told that the connection failed.

expected: callback called once, with False; final status DISCONNECTED
actual:   callback called twice [False, True]; final status CONNECTED

exit status 0 = behaves as the property says, 1 = violation
"""
import os, sys, heapq, itertools, logging
sys.path.insert(0, os.path.join(os.path.dirname(os.path.abspath(__file__)), ".."))
logging.disable(logging.CRITICAL)

import mpgameserver.connection as connection
import mpgameserver.client as client_mod
from mpgameserver.client import UdpClient
from mpgameserver.context import ServerContext
from mpgameserver.handler import EventHandler
from mpgameserver.connection import ServerClientConnection, PacketHeader, \
    PacketType, ConnectionStatus

# ---------------------------------------------------------------- fake time
class FakeTime(object):
    def __init__(self): self.now = 1000.0
    def time(self): return self.now
    def monotonic(self): return self.now
    def sleep(self, d): self.now += d
T = FakeTime()
connection.time = T     # ConnectionBase.clock = time.time, FragmentReceiver
client_mod.time = T     # waitForDisconnect sleep

# ------------------------------------------------------------- fake network
class Net(object):
    """ lossless network with a constant one way latency """
    def __init__(self, latency=0.0):
        self.latency = latency; self.q = []; self.n = itertools.count()
        self.endpoints = {}
    def send(self, src, dst, datagram):
        heapq.heappush(self.q, (T.now + self.latency, next(self.n), src, dst, datagram))
    def pump(self):
        while self.q and self.q[0][0] <= T.now:
            _, _, src, dst, datagram = heapq.heappop(self.q)
            self.endpoints[dst](src, datagram)

class FakeSocket(object):
    def __init__(self, net, addr):
        self.net = net; self.addr = addr; self.inbox = []
        net.endpoints[addr] = lambda src, dg: self.inbox.append((dg, src))
    def sendto(self, datagram, addr): self.net.send(self.addr, addr, datagram)
    def recvfrom(self, n): return self.inbox.pop(0)
    def close(self): pass

class FakeSelect(object):
    @staticmethod
    def select(r, w, x, timeout=None):
        return [s for s in r if s.inbox], list(w), []
client_mod.select = FakeSelect

# -------------------------------------------------- server (UdpServerThread)
class MiniServer(object):
    ADDR = ("10.0.0.1", 1474)
    def __init__(self, net, ctxt):
        self.net = net; self.ctxt = ctxt; self.queue = []
        net.endpoints[self.ADDR] = self.recv
    def recv(self, addr, datagram):             # _UdpServer.run
        try:
            hdr = PacketHeader.from_bytes(True, datagram)
        except Exception:
            return
        self.queue.append((addr, hdr, datagram))
    def step(self):                             # one pass of UdpServerThread.run
        ctxt = self.ctxt
        queue, self.queue = self.queue, []
        for addr, hdr, datagram in queue:
            if addr in ctxt.connections:
                c = ctxt.connections[addr]
                c._recv_datagram(hdr, datagram)
                for seqnum, msg in c.incoming_messages:
                    ctxt.handler.handle_message(c, seqnum, msg)
                c.incoming_messages = []
            elif addr in ctxt.temp_connections:
                if hdr.pkt_type == PacketType.CHALLENGE_RESP:
                    ctxt.temp_connections[addr]._recv_datagram(hdr, datagram)
            elif hdr.pkt_type == PacketType.CLIENT_HELLO:
                c = ServerClientConnection(ctxt, addr)
                c.send_keep_alive_interval = ctxt.keep_alive_interval
                c.outgoing_timeout = ctxt.outgoing_timeout
                ctxt.temp_connections[addr] = c
                c._recv_datagram(hdr, datagram)
        sending = []
        for c in list(ctxt.connections.values()):
            if c.status == ConnectionStatus.DISCONNECTING:
                c.disconnect()
            dead = c.status == ConnectionStatus.DISCONNECTED or c.timedout(ctxt.connection_timeout)
            if dead:
                ctxt.onDisconnect(c)
            msg = c.update()
            if msg is not None:
                sending.append(msg)
            if dead:
                del ctxt.connections[c.addr]
        for c in list(ctxt.temp_connections.values()):
            if c.status == ConnectionStatus.DISCONNECTED or c.timedout(ctxt.temp_connection_timeout):
                del ctxt.temp_connections[c.addr]
            else:
                msg = c.update()
                if msg is not None:
                    sending.append(msg)
        for pkt, key, addr in sending:
            self.net.send(self.ADDR, addr, pkt.to_bytes(key))

TICK = 1/60

def run(net, server, client, duration, client_runs=True):
    end = T.now + duration
    while T.now < end:
        net.pump(); server.step(); net.pump()
        if client_runs:
            client.update()
        T.now += TICK


class Handler(EventHandler):
    def __init__(self):
        super().__init__()
        self.events = []
    def connect(self, client):
        self.events.append((round(T.now - 1000.0, 3), "connect"))
    def disconnect(self, client):
        self.events.append((round(T.now - 1000.0, 3), "disconnect"))

def main():
    net = Net(latency=0.08)
    handler = Handler()
    ctxt = ServerContext(handler)
    server = MiniServer(net, ctxt)

    client = UdpClient()
    client._make_socket = lambda addr: FakeSocket(net, ("10.0.0.2", 40000))
    client.setConnectionTimeout(0.1)

    calls = []
    history = []
    t_connect = T.now
    client.connect(MiniServer.ADDR, lambda ok: calls.append((round(T.now - t_connect, 3), ok)))

    end = T.now + 3.0
    while T.now < end:
        net.pump(); server.step(); net.pump()
        client.update()
        if not history or history[-1][1] != client.status():
            history.append((round(T.now - t_connect, 3), client.status()))
        T.now += TICK

    print("connect callback calls (dt, connected): %s" % calls)
    print("client status history: %s" % [(t, str(s)) for t, s in history])
    print("server handler events: %s" % handler.events)

    ok = [c[1] for c in calls] == [False] and client.status() == ConnectionStatus.DISCONNECTED
    if not ok:
        print("FAIL: the attempt ended at %.3f s with callback(False) and was then "
              "reported again: calls=%s final status=%s" % (
              calls[0][0], [c[1] for c in calls], client.status()))
        return 1
    print("OK")
    return 0

if __name__ == '__main__':
    sys.exit(main())
