"""C10 - server handler lifecycle: connect once, then that client's messages, then disconnect once."""
import re
import random
import collections

from checks.common import UdpCheck, Monitor, swarm_cfg, PoolGuard
from world.attacker import Attacker
from world.udpworld import accepted, ConnectionStatus, PacketType, client_addr, sig


class LifecycleMonitor(Monitor):
    wants_recv = True
    wants_msg = True
    wants_app = True

    def on_recv_app(self, conn, msgseq, payload):
        if conn.isServer:
            self.accepted[id(conn)].append((self.w.k.now, sig(payload)))

    def attach(self, world):
        self.w = world
        self.last_accept = {}         # id(conn) -> t
        self.challenge_ok = {}        # id(conn) -> t a CHALLENGE_RESP datagram was accepted
        self.peer_disconnect = {}     # id(conn) -> t a DISCONNECT message was accepted
        self.accept_log = collections.defaultdict(list)
        self.accepted = collections.defaultdict(list)     # id(server conn) -> [(t, sig)] of application messages it accepted

    def post_recv(self, conn, hdr, datagram, pre, result):
        if accepted(result) and conn.isServer:
            self.last_accept[id(conn)] = self.w.k.now
            self.accept_log[id(conn)].append(self.w.k.now)
            if hdr.pkt_type.value == PacketType.CHALLENGE_RESP.value:
                self.challenge_ok.setdefault(id(conn), self.w.k.now)

    def on_recv_message(self, conn, typ, msgseq, payload, dup):
        if conn.isServer and not dup and typ.value == PacketType.DISCONNECT.value:
            self.peer_disconnect.setdefault(id(conn), self.w.k.now)


class C10(UdpCheck):
    pid = "C10"
    budget = {"quick": 75, "thorough": 900}
    ncases = {"quick": 1200, "thorough": 60000}
    rule = ("case = 1-6 clients with scripted lives (connect, send, disconnect, go silent, crash and restart from the same "
            "address while the old session is still connected or after it timed out, stall) x server-side disconnects x handler "
            "exceptions injected in any of starting/connect/message/update/disconnect/shutdown x shutdown at a random tick "
            "(ctxt.shutdown()+wake or TwistedServer.stop()) x token generator forced to repeat issued tokens x replayed/garbage "
            "datagrams x loss/dup x three server entry points; oracle over the recorded handler event history; non-trivial = at "
            "least one fault, exception, restart, forced token or shutdown happened and >= 2 handler events were seen; "
            "distinct = event-order digest")

    def gen(self, rng, tier, i):
        n = rng.choice([1, 2, 2, 3, 4, 6])
        cfg = swarm_cfg(rng, nclients=n, long_latency=False)
        T = rng.choice([1.5, 3.0, 5.0])
        cfg["server"]["conn_timeout"] = T
        cfg["server"]["temp_timeout"] = rng.choice([None, 0.5, 2.0])
        dur = rng.choice([8.0, 14.0, 22.0])
        plan = []
        for c in range(n):
            t = 0.05 + rng.random() * 1.5
            op0 = {"op": "connect", "c": c, "t": round(t, 4), "cb": True}
            if rng.random() < 0.4:      # the client application sends right from its connect callback
                op0["on_connect"] = [{"len": rng.choice([8, 30, 900, 2500]), "retry": rng.choice([0, 1, -1]), "cb": False,
                                      "api": "send", "kind": 0} for _ in range(rng.choice([1, 3]))]
            plan.append(op0)
            alive = True
            while t < dur - 1.0:
                t += 0.3 + rng.random() * 3.0
                if t >= dur - 1.0:
                    break
                r = rng.random()
                if not alive:
                    plan.append({"op": "connect", "c": c, "t": round(t, 4), "cb": rng.random() < 0.5, "reuse": rng.random() < 0.4})
                    alive = True
                elif r < 0.05:
                    plan.append({"op": "rechallenge", "c": c, "t": round(t, 4)})
                elif r < 0.09:
                    # a misbehaving protocol-complete client: hello inside the session (follows a key change if the server
                    # makes one), then a message the application answers with a kick, with another hello right behind it
                    plan.append({"op": "rehello", "c": c, "t": round(t, 4)})
                    for j in range(rng.choice([1, 2, 3])):
                        t += rng.choice([0.2, 0.35, 0.5])
                        plan.append({"op": "rehello", "c": c, "t": round(t, 4), "burst": True, "len": rng.choice([9, 24, 300])})
                    for j in range(rng.choice([3, 6])):
                        t += 0.25
                        plan.append({"op": "send", "c": c, "t": round(t, 4), "len": 20, "retry": 0, "cb": False, "api": "send"})
                elif r < 0.45:
                    same_frame = rng.random() < 0.5      # several messages in one datagram
                    for j in range(rng.choice([1, 1, 3, 8])):
                        plan.append({"op": "send", "c": c, "t": round(t + (0 if same_frame else j * 0.01), 4), "len": rng.choice([8, 9, 20, 100, 700, 3000]),
                                     "retry": rng.choice([0, 1, -1]), "cb": False, "api": "send"})
                elif r < 0.6:
                    # (every other one through the blocking waitForDisconnect() convenience call)
                    plan.append({"op": "disconnect", "c": c, "t": round(t, 4), "wait": int(t * 1000) % 2 == 0})
                    alive = False
                elif r < 0.75:
                    plan.append({"op": "crash", "c": c, "t": round(t, 4)})
                    alive = False
                    if rng.random() < 0.5:
                        t += rng.choice([0.05, 0.3, 1.0])      # restart while the old session is still connected
                    else:
                        t += T + 0.5 + rng.random()
                elif r < 0.85:
                    plan.append({"op": "stall", "c": c, "t": round(t, 4), "d": rng.choice([0.2, 1.0, T + 1.0])})
                else:
                    plan.append({"op": "connect", "c": c, "t": round(t, 4), "cb": rng.random() < 0.5, "reuse": rng.random() < 0.4})  # reconnect without disconnect
        for j in range(rng.choice([0, 0, 1, 2])):
            plan.append({"op": "sdisconnect", "c": rng.randrange(n), "t": round(1.0 + rng.random() * (dur - 2), 4)})
        rng3 = random.Random("c10-block|%s" % (rng.getstate()[1][:3],))       # (does not consume from the main stream)
        if rng3.random() < 0.12:
            # a connected client's address is block-listed at run time: its datagrams are discarded from then on, the
            # handler still gets its disconnect (by silence)
            plan.append({"op": "sblock", "c": rng3.randrange(n), "t": round(2.0 + rng3.random() * max(0.5, dur - T - 4.0), 4)})
        for j in range(rng.choice([0, 1, 3])):
            plan.append({"op": "ssend", "c": rng.randrange(n), "t": round(1.0 + rng.random() * (dur - 2), 4), "len": 30,
                         "retry": rng.choice([0, -1]), "cb": False, "api": "send"})
        for j in range(rng.choice([0, 0, 1, 2, 4])):
            ev = rng.choice(["starting", "connect", "connect", "message", "message", "update", "disconnect", "disconnect", "shutdown"])
            nth = 0 if ev in ("starting", "shutdown") else rng.randrange(0, 4) if ev != "update" else rng.randrange(0, int(dur * 30))
            plan.append({"op": "hraise", "t": 0.0, "event": ev, "nth": nth})
        for j in range(rng.choice([0, 0, 1, 2])):
            # the application kicks another client (and maybe stops the server) from inside an event handler
            plan.append({"op": "hkick", "t": 0.0, "event": rng.choice(["disconnect", "disconnect", "message", "connect"]),
                         "nth": rng.randrange(0, 3), "c": rng.randrange(n), "shutdown": rng.random() < 0.4})
        if rng.random() < 0.35:
            how = "stop" if cfg["entry"] == "twisted" and rng.random() < 0.7 else "ctxt"
            plan.append({"op": "shutdown", "t": round(1.0 + rng.random() * (dur - 1.5), 4), "how": how})
        if rng.random() < 0.3:
            cfg["token_repeat"] = rng.choice([1, 2, 4])
        if n > 1 and rng.random() < 0.2:
            plan.append({"op": "sockerr", "t": round(1.0 + rng.random() * (dur - 3), 3), "d": rng.choice([0.2, 0.6, 1.5]), "c": rng.randrange(n)})
        cfg["phases"] = []
        if rng.random() < 0.5:
            cfg["phases"].append({"t0": 0.0, "t1": dur, "loss": rng.choice([0.02, 0.1]), "dup": rng.choice([0.0, 0.05, 0.2])})
        for j in range(rng.choice([0, 0, 2, 5])):
            c = rng.randrange(n)
            r = rng.random()
            if r < 0.35:
                plan.append({"op": "replay", "global": True, "t": round(rng.random() * dur, 4), "link": "c%d>S" % c,
                             "back": rng.choice([0, 1, 3, 40, 200]), "times": rng.choice([1, 2])})
            elif r < 0.65:
                # CRC-only forgeries in the client's name (any header type, fresh sequence numbers): an application message,
                # a disconnect - the handler must never hear of them
                plan.append({"op": "forge", "global": True, "t": round(rng.random() * dur, 4), "frm": "c%d" % c, "to": "S",
                             "type": rng.choice([1, 2, 3, 5, 6]), "inner": rng.choice([[6], [5], [6, 5], [6, 6, 5], [1, 6], [2, 6, 5]]),
                             "seq_off": rng.choice([1, 1, 2, 10])})
            else:
                plan.append({"op": "garbage", "global": True, "t": round(rng.random() * dur, 4), "frm": "c%d" % c, "to": "S",
                             "kind": rng.choice(["random", "magic", "header"]), "n": j})
        cfg["duration"] = dur
        return {"cfg": cfg, "plan": plan}

    def monitors(self, case):
        self.mon = LifecycleMonitor()
        return [self.mon, PoolGuard()]

    def prepare(self, w, case):
        Attacker(w)
        k = case["cfg"].get("token_repeat")
        if k:
            # the generator repeats every issued value k more times: issued, issued, ..., fresh, fresh, ...
            seams = w.seams
            real = seams.urandom
            state = {"last": None, "left": 0}

            def urandom(n, label):
                if label == "context" and n == 4:
                    seams.token_draws += 1
                    if state["last"] is not None and state["left"] > 0:
                        state["left"] -= 1
                        w.probe("token_collision_forced")
                        return state["last"]
                    v = seams.rng.randbytes(4)
                    state["last"], state["left"] = v, k
                    return v
                return real(n, label)
            seams.urandom = urandom

    def nontrivial(self, w, case):
        interesting = (sum(w.decider.counts.values()) or w.probes or w.shutdown_t is not None
                       or any(op["op"] in ("crash", "hraise", "sdisconnect", "hkick") for op in case["plan"]))
        return bool(interesting) and len(w.hev) >= 2

    def judge(self, w, case):
        vs = []
        mon = self.mon
        cfg = case["cfg"]
        T = cfg["server"]["conn_timeout"] or 5.0
        interval = cfg["server"]["interval"]
        tick = max(interval, 1 / 60)
        h = w.handler
        # ---- one thread
        threads = {e[3] for e in w.hev} | set(w.update_threads)
        if len(threads) > 1:
            vs.append({"kind": "handler_events_on_more_than_one_thread", "key": cfg["entry"], "detail": sorted(threads)})
        # ---- per client object: connect . message* . disconnect
        per = collections.defaultdict(list)
        for t, kind, cid, th, extra in w.hev:
            if cid is not None:
                per[cid].append((t, kind, extra))
        loop_done = w.loop_done
        for name, typ, msg in w.thread_exits:
            if "loop" in name and typ != "SimAbort":
                vs.append({"kind": "server_loop_thread_died", "key": typ, "detail": msg})
        sends_by = collections.defaultdict(set)
        for rec in w.sends:
            if rec["who"] != "S":
                sends_by[rec["who"]].add(rec["sig"])
        key_of_inc = {}
        for inc in w.incarnations:
            kb = inc["conn"].session_key_bytes
            if kb:
                key_of_inc[kb] = inc
        connected_now = {}
        for t, kind, cid, th, extra in w.hev:
            if kind == "connect":
                tok = extra[1]
                for ocid, otok in connected_now.items():
                    if otok == tok:
                        vs.append({"kind": "simultaneously_connected_clients_share_a_token", "key": "",
                                   "detail": {"token": tok, "cids": [ocid, cid], "t": t}})
                connected_now[cid] = tok
            elif kind == "disconnect":
                connected_now.pop(cid, None)
        sdisc = collections.defaultdict(list)
        for t, who, cid, what in w.app_events:
            if what == "server_disconnect_call":
                sdisc[cid].append(t)
        for cid, evs in per.items():
            conn = h.objs[cid]
            s = "".join({"connect": "C", "message": "m", "disconnect": "D"}[k] for t, k, x in evs)
            if not re.fullmatch(r"Cm*D?", s):
                shape = re.sub(r"m+", "m", s)[:8]
                vs.append({"kind": "handler_event_order_violated", "key": shape,
                           "detail": {"events": s[:60], "addr": conn.addr, "times": [round(t, 3) for t, k, x in evs[:6]]}})
                continue
            t_conn = evs[0][0]
            # connect only after a challenge response was accepted by this connection
            tc = mon.challenge_ok.get(id(conn))
            # (the acceptance is logged when _recv_datagram returns, the connect event fires inside that very call)
            if tc is None or tc > t_conn + 0.002:
                vs.append({"kind": "connect_without_accepted_challenge_response", "key": "", "detail": {"addr": conn.addr}})
            # only that client's messages: sent by the incarnation that holds the same session key
            inc = key_of_inc.get(conn.session_key_bytes)
            who = w.net.name(conn.addr)
            for t, k, x in evs:
                if k == "message" and x not in sends_by.get(who, ()):
                    vs.append({"kind": "message_not_from_that_client", "key": "", "detail": {"addr": conn.addr, "sig": x, "t": t}})
                    break
            # every message the connection accepted reaches the handler exactly once (also around handler exceptions)
            acc = collections.Counter(x for t, x in mon.accepted.get(id(conn), ()))
            disp = collections.Counter(x for t, k, x in evs if k == "message")
            for x, n_ in disp.items():
                if n_ > acc.get(x, 0):
                    vs.append({"kind": "message_event_repeated_or_fabricated", "key": "", "detail": {"addr": conn.addr, "sig": x, "events": n_, "accepted": acc.get(x, 0)}})
                    break
            t_last = max([t for t, k, x in evs] + [mon.last_accept.get(id(conn), 0.0)])
            t_disc = next((t for t, k, x in evs if k == "disconnect"), None)
            missing = []
            for t_a, x in mon.accepted.get(id(conn), ()):
                if disp.get(x, 0) >= acc.get(x, 0):
                    continue
                # accepted but never dispatched: only excusable right before the connection went away / the run ended,
                # or when no later datagram triggered the dispatch (messages that arrived with the challenge response)
                # a later datagram of this client, processed in an earlier tick than the one that ended the connection
                # (a disconnect - by the peer, the application or shutdown - discards what was not dispatched yet)
                horizon = min([x for x in (t_disc, w.shutdown_t, w.k.now) if x is not None]) - 2 * tick - interval - 0.01
                later_traffic = any(t_a + 0.004 < t_l < horizon for t_l in mon.accept_log.get(id(conn), ()))   # (not the datagram that carried it)
                gone_soon = False
                if later_traffic and not gone_soon:
                    missing.append((round(t_a, 4), x))
            if missing:
                vs.append({"kind": "accepted_message_never_reached_the_handler", "key": "", "detail": {"addr": conn.addr, "missing": missing[:3], "n": len(missing)}})
            # server-initiated disconnect: the application called client.disconnect() - the disconnect event follows
            # within a few ticks, and no message of that client is handed over after that
            for t_k in sdisc.get(cid, ())[:1]:
                bound = 3 * tick + 2 * interval + 0.1
                if t_k < t_conn:
                    continue
                if t_disc is None and not loop_done and w.k.now - t_k > bound and (w.shutdown_t is None or w.shutdown_t > t_k + bound):
                    vs.append({"kind": "server_initiated_disconnect_not_reported", "key": "",
                               "detail": {"addr": conn.addr, "called_at": round(t_k, 4), "end": round(w.k.now, 3), "status": conn.status.name()}})
                elif t_disc is not None and t_disc - t_k > bound:
                    vs.append({"kind": "server_initiated_disconnect_reported_late", "key": "",
                               "detail": {"addr": conn.addr, "late_by": round(t_disc - t_k, 4)}})
                late = [t for t, k_, x in evs if k_ == "message" and t > t_k + bound]
                if late:
                    vs.append({"kind": "message_event_after_server_initiated_disconnect", "key": "",
                               "detail": {"addr": conn.addr, "called_at": round(t_k, 4), "n": len(late), "first": round(late[0], 4)}})
            if inc is None and not w.probes.get("misbehaving_client_followed_a_key_change"):
                vs.append({"kind": "connected_object_without_matching_client_incarnation", "key": "",
                           "detail": {"addr": conn.addr}})
            # disconnect: exactly once, for a cause, inside its window
            disc = [t for t, k, x in evs if k == "disconnect"]
            if not disc:
                if loop_done:
                    vs.append({"kind": "no_disconnect_after_server_shutdown", "key": "", "detail": {"addr": conn.addr}})
                else:
                    # still connected at the end: must be justified by recent traffic
                    la = mon.last_accept.get(id(conn), t_conn)
                    if w.k.now - la > T + 2 * tick + interval + 0.1 and conn.addr in w.ctxt.connections:
                        vs.append({"kind": "silent_client_not_dropped", "key": "", "detail": {"addr": conn.addr, "silent_for": round(w.k.now - la, 3), "T": T}})
                    pd = mon.peer_disconnect.get(id(conn))
                    if pd is not None and w.k.now - pd > 3 * tick + 2 * interval + 0.1:
                        vs.append({"kind": "peer_disconnect_not_reported", "key": "", "detail": {"addr": conn.addr, "since": round(w.k.now - pd, 3)}})
                continue
            td = disc[0]
            causes = []
            pd = mon.peer_disconnect.get(id(conn))
            if pd is not None and pd <= td:
                causes.append("peer")
                if td - pd > 3 * tick + 2 * interval + 0.05 + self._stall(case, pd, td):
                    vs.append({"kind": "peer_disconnect_reported_late", "key": "", "detail": {"late_by": round(td - pd, 4), "tick": tick}})
            if any(t <= td for t in sdisc.get(cid, ())):
                causes.append("server")
            if w.shutdown_t is not None and td >= w.shutdown_t - 1e-9:
                causes.append("shutdown")
            la = mon.last_accept.get(id(conn), t_conn)
            # last datagram accepted before the disconnect
            if td - la >= T * 0.997 - 0.003:
                causes.append("timeout")
                if not [c for c in causes if c != "timeout"] and td - la > T + 2 * tick + interval + 0.1 + self._stall(case, la, td):
                    vs.append({"kind": "timeout_disconnect_late", "key": "", "detail": {"after_last_accept": round(td - la, 4), "T": T}})
            if not causes:
                vs.append({"kind": "disconnect_without_cause", "key": "",
                           "detail": {"addr": conn.addr, "t": td, "since_last_accept": round(td - la, 4), "T": T}})
        # ---- clients that completed the handshake are reported (events keep flowing after handler exceptions)
        for inc in w.incarnations:
            c = inc["conn"]
            if c.session_key_bytes and not any(h.objs[cid].session_key_bytes == c.session_key_bytes for cid in per):
                # the client adopted a key; the server must report it unless the challenge never arrived / it shut down
                arrived = any(sc.session_key_bytes == c.session_key_bytes and id(sc) in mon.challenge_ok for sc in w.all_server_conns)
                if arrived:
                    vs.append({"kind": "completed_handshake_never_reported", "key": "", "detail": {"client": inc["name"], "inc": inc["inc"]}})
        # ---- shutdown: handler.shutdown after all disconnects, nothing afterwards
        if loop_done and w.shutdown_t is not None:
            kinds = [e[1] for e in w.hev]
            if kinds.count("shutdown") != 1 or kinds[-1] != "shutdown":
                vs.append({"kind": "shutdown_event_wrong", "key": "n=%d" % kinds.count("shutdown"), "detail": kinds[-5:]})
        elif w.shutdown_t is not None and w.k.now - w.shutdown_t > 1.0 + 3 * interval and not loop_done:
            vs.append({"kind": "server_did_not_stop", "key": cfg["entry"], "detail": {"shutdown_t": w.shutdown_t, "end": w.k.now}})
        return vs

    @staticmethod
    def _stall(case, t0, t1):
        return 0.0

    def sample(self, w, case):
        s = super().sample(w, case)
        s["handler_events"] = ["%.2f %s c%s" % (e[0], e[1], e[2]) for e in w.hev[:12]]
        return s


CHECK = C10()
