"""
D5 (C07 / C06, same root cause as D1 but NO datagram is lost, duplicated or
reordered): an unretried fragmented send reports callback(True) although the
peer never reassembles and never delivers the message.  Only the interleaving
with other queued messages matters.

run: PYTHONPATH=/tmp/aud/C /venv/bin/python d5_demo.py

Scenario (default MTU and timeouts, perfect network, zero latency):
  the client queues, in this order,
     130 x 900 byte messages, N (3000 bytes, fragmented), 30 x 900 byte messages,
     M (1500 bytes: fragments of 1024 and 476 bytes, retry=NONE, with callback)
  and then just calls update() once per frame.

What happens:
  * the packet builder sends one 900 byte message per datagram and fills the
    rest of the datagram with whatever still fits.  The small 2nd fragment of M
    fits, the 1st (1030 bytes) does not: M/2 leaves with the very first
    datagram, M/1 has to wait for its turn ~2.7 s later.
  * the server creates a FragmentReceiver for M at t=0.  When the fragments of
    N arrive (t~2.2 s) the sweep in _recvAppFragment finds M "expired"
    (1.0 + 0.5*2 = 2 s without a new fragment) and deletes it.
  * M/1 arrives, a new empty FragmentReceiver is created, M is never complete.
  * both datagrams that carried M/1 and M/2 are acked within a few ms, so
    FragmentSender.callback reports True to the application.
"""
import logging
import sys
import time as _real_time
import types

logging.disable(logging.CRITICAL)

import mpgameserver.connection as C
import mpgameserver.client as CL
from mpgameserver.connection import Packet, PacketHeader, PacketType, \
    ConnectionStatus, ServerClientConnection, FragmentSender
from mpgameserver.context import ServerContext
from mpgameserver.handler import EventHandler
from mpgameserver.client import UdpClient


# --------------------------------------------------------------------------
# deterministic harness: fake clock (anchored at time.time()), mock socket
class FakeTime(object):
    def __init__(self):
        self.now = self.t0 = _real_time.time()
    def time(self):
        return self.now
    def sleep(self, d):
        self.now += d
    def __getattr__(self, name):
        return getattr(_real_time, name)

class Handler(EventHandler):
    def __init__(self):
        self.received = []
        self.client = None
    def connect(self, client):
        self.client = client
    def handle_message(self, client, seqnum, msg=b''):
        self.received.append(msg)

class MockSock(object):
    def __init__(self, sim):
        self.sim = sim
        self.inbox = []
    def sendto(self, datagram, addr):
        self.sim.net_send('c2s', datagram)
    def recvfrom(self, n):
        return self.inbox.pop(0), self.sim.saddr
    def close(self):
        pass

class Sim(object):
    def __init__(self, dt=0.017):
        self.ft = FakeTime()
        C.time = self.ft      # ConnectionBase.clock and FragmentReceiver.expired()
        CL.time = self.ft
        self.dt = dt
        self.saddr = ('127.0.0.1', 1474)
        self.caddr = ('127.0.0.1', 5555)
        self.handler = Handler()
        self.ctxt = ServerContext(self.handler)
        self.client = UdpClient()
        self.sock = MockSock(self)
        self.client._make_socket = lambda addr: self.sock
        CL.select = types.SimpleNamespace(
            select=lambda r, w, x, t: ([self.sock] if self.sock.inbox else [], [self.sock], []))
        self.inflight = []
        self.order = 0
        self.policy = lambda direction, datagram: [0.0]   # list of delays, [] = lost
        self.server_queue = []
        self.client_received = []

    @property
    def t(self):
        return self.ft.now - self.ft.t0

    def net_send(self, direction, datagram):
        for d in self.policy(direction, datagram):
            self.order += 1
            self.inflight.append((self.ft.now + d, self.order, direction, datagram))

    def deliver(self):
        due = sorted(x for x in self.inflight if x[0] <= self.ft.now)
        self.inflight = [x for x in self.inflight if x[0] > self.ft.now]
        for _, _, direction, datagram in due:
            if direction == 'c2s':
                hdr = PacketHeader.from_bytes(True, datagram)
                self.server_queue.append((self.caddr, hdr, datagram))
            else:
                self.sock.inbox.append(datagram)

    def server_tick(self):
        # the body of UdpServerThread.run for one tick
        ctxt = self.ctxt
        while self.server_queue:
            addr, hdr, datagram = self.server_queue.pop(0)
            if addr in ctxt.connections:
                client = ctxt.connections[addr]
                client._recv_datagram(hdr, datagram)
                for seqnum, msg in client.incoming_messages:
                    ctxt.handler.handle_message(client, seqnum, msg)
                client.incoming_messages = []
            elif addr in ctxt.temp_connections:
                if hdr.pkt_type != PacketType.CHALLENGE_RESP:
                    continue
                ctxt.temp_connections[addr]._recv_datagram(hdr, datagram)
            else:
                if hdr.pkt_type != PacketType.CLIENT_HELLO:
                    continue
                client = ServerClientConnection(ctxt, addr)
                client.send_keep_alive_interval = ctxt.keep_alive_interval
                client.outgoing_timeout = ctxt.outgoing_timeout
                ctxt.temp_connections[addr] = client
                client._recv_datagram(hdr, datagram)
        sending = []
        for client in list(ctxt.connections.values()) + list(ctxt.temp_connections.values()):
            msg = client.update()
            if msg is not None:
                sending.append(msg)
        for pkt, key, addr in sending:
            self.net_send('s2c', pkt.to_bytes(key))

    def step(self, n=1):
        for _ in range(n):
            self.ft.now += self.dt
            self.deliver()
            self.server_tick()
            self.client.update()
            self.client_received.extend(m for _, m in self.client.getMessages())

    def connect(self):
        self.client.connect(self.saddr, None)
        for i in range(30):
            self.step()
        assert self.client.connected() and self.handler.client is not None
        self.sconn = self.handler.client
        self.cconn = self.client.conn

# --------------------------------------------------------------------------


sim = Sim()
sim.connect()

filler = [bytes([i]) * 900 for i in range(160)]
N = b"N" * 3000
M = bytes(range(250)) * 6                   # 1500 bytes -> 1024 + 476
result_M = []

for f in filler[:130]:
    sim.client.send(f, retry=0)
sim.client.send(N, retry=0)
for f in filler[130:]:
    sim.client.send(f, retry=0)
sim.client.send(M, retry=0, callback=result_M.append)

sim.step(60 * 20)       # 20 s

got = sim.handler.received
print("connection still open          :", sim.client.connected(), sim.sconn.status)
print("client timeouts (lost datagrams):", sim.cconn.stats.timeouts)
print("filler / N delivered           : %d/%d  %s" % (sum(1 for f in filler if f in got), len(filler), N in got))
print("callback(M)                    :", result_M)
print("M delivered                    :", M in got)
print("server partial fragments       :", {k: [f is not None for f in v.fragments] for k, v in sim.sconn.received_fragments.items()})

assert sim.cconn.stats.timeouts == 0
assert all(f in got for f in filler) and N in got
# C07: "reports success only after the peer endpoint has accepted the whole message"
# C06: "split and reassembled exactly for ... every interleaving with other messages"
assert not (result_M == [True] and M not in got), \
    "callback(True) for a fragmented message that was never reassembled/delivered (no loss at all)"
assert M in got
print("OK")
