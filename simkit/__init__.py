"""simkit: a small deterministic discrete-event simulator with baton-passed real threads.

Nothing in here knows about mpgameserver; `world/` binds it to the repository.
"""
