"""C07 - send callbacks are truthful and fire exactly once; every datagram is resolved exactly once."""
import random
import collections

from checks.common import UdpCheck, gen_traffic, limits, Monitor, ConnectionStatus, FragExpiryProbe
from checks.c05 import open_pairs, is_guaranteed, lenclass
from world.attacker import Attacker
from world import refmodel as R
from world.udpworld import accepted


class CallbackMonitor(Monitor):
    wants_build = wants_recv = wants_app = wants_ack = True

    def attach(self, world):
        self.w = world
        self.first_tx = {}        # (conn name, msgseq) -> t of first transmission
        self.carriers = collections.defaultdict(set)   # (conn name, msgseq) -> datagram seqs that carried it
        self.dgram_inst = collections.Counter()        # (conn name, seq) -> instance counter
        self.open = {}            # (conn name, seq) -> instance currently pending
        self.acked_at = {}        # (conn name, seq, inst) -> t when an accepted peer datagram acknowledged it
        self.ack_ctx = {}         # (conn name, seq, inst) -> (client node, number of the update() call that processed that ack)
        self.accepted = collections.defaultdict(list)  # (receiving conn name, sig) -> [t]
        self.resolved = collections.Counter()

    # every datagram built: which messages it carries
    def on_build(self, conn, pkt, pre=None):
        w = self.w
        cn = w.conn_name(conn)
        seq = int(pkt.hdr.seq)
        self.dgram_inst[(cn, seq)] += 1
        inst = self.dgram_inst[(cn, seq)]
        if (cn, seq) in self.open:
            w.violation("datagram_seq_reused_while_pending", {"conn": cn, "seq": seq})
        self.open[(cn, seq)] = inst
        now = w.k.now
        for m in pkt.msgs:
            k = (cn, int(m.seq))
            self.first_tx.setdefault(k, now)
            self.carriers[k].add((seq, inst))

    # every datagram resolved (acked / timed out)
    def on_ack(self, conn, seqnum, acked):
        w = self.w
        cn = w.conn_name(conn)
        k = (cn, int(seqnum))
        inst = self.open.pop(k, None)
        if inst is None:
            w.violation("datagram_resolved_twice_or_unknown", {"conn": cn, "seq": int(seqnum), "acked": acked})
            return
        self.resolved[(cn, acked)] += 1

    # accepted incoming datagram: which of my datagrams does it acknowledge
    def post_recv(self, conn, hdr, datagram, pre, result):
        if not accepted(result):
            return
        w = self.w
        cn = w.conn_name(conn)
        ack = int(hdr.ack)
        if ack == 0:
            return
        now = w.k.now
        bits = hdr.ack_bits
        for i in range(-1, 32):
            if i >= 0 and not (bits & (0x80000000 >> i)):
                continue
            s = R.ring_add(ack, -(i + 1)) if i >= 0 else ack
            inst = self.dgram_inst.get((cn, s))
            if inst:
                self.acked_at.setdefault((cn, s, inst), now)
                cur = w.current_client
                if cur is not None and not conn.isServer:
                    # which update() call of the client's frame loop processed this acknowledgement
                    self.ack_ctx.setdefault((cn, s, inst), (cur.name, cur.n_update))

    def on_recv_app(self, conn, msgseq, payload):
        from world.udpworld import sig
        self.accepted[(self.w.conn_name(conn), sig(payload))].append(self.w.k.now)

    def on_tick(self):
        w = self.w
        conns = [cn.client.conn for cn in w.clients if cn.client is not None and cn.client.conn is not None]
        conns += list(w.ctxt.connections.values())
        for c in conns:
            if c.status.value != ConnectionStatus.CONNECTED.value:
                continue
            st = c.stats
            if st.assembled != st.acked + st.timeouts + len(c.pending_acks):
                w.violation("datagram_accounting", {"conn": w.conn_name(c), "assembled": st.assembled, "acked": st.acked,
                                                    "timeouts": st.timeouts, "pending": len(c.pending_acks)})


class C07(UdpCheck):
    pid = "C07"
    budget = {"quick": 80, "thorough": 900}
    ncases = {"quick": 500, "thorough": 40000}
    per_run_wall_s = 400
    chunk = 1
    shrink_s = 60
    rule = ("case = swarm config + plan of sends (all retry modes, all boundary lengths, both directions, callback on every "
            "send) with RTT on both sides of the 0.1 s resend interval and of the message timeout, ack-path loss, "
            "reordering, attacker replays and forged 'ack everything' headers, then a healed network; non-trivial = a fault "
            "fired and at least one callback ran; distinct = distinct event-order digest")

    def gen(self, rng, tier, i):
        if (i == 0) if tier == "quick" else (i % 2000 == 0):
            return self.gen_wrap(rng, tier, i)
        if i % 20 == 11:
            return self.gen_ackedge(rng, tier, i)
        if i % 20 == 5:
            return self.gen_burst(rng, tier, i)
        case = gen_traffic(rng, i, tier, retries=(0, 0, 1, -1, -1), cb_p=1.0)
        cfg, plan = case["cfg"], case["plan"]
        # (the message timeout is varied by gen_traffic, always above the worst RTT of the run)
        t0, t1 = cfg["phases"][0]["t0"] if cfg["phases"] else 1.0, cfg["t_heal"]
        if rng.random() < 0.5:
            side = rng.choice(["src", "dst"])       # only one direction loses: data arrives, acks do not (or v.v.)
            cfg["phases"].insert(0, {"t0": t0, "t1": t1, side: "S", "loss": rng.choice([0.3, 0.6, 0.9])})
        n = len(cfg["clients"])
        if rng.random() < 0.3:
            # frame hitches: the application does not call update() for a while (loading a level, a GC pause); what arrived
            # in the meantime is waiting in the socket when it resumes - shortly after unretried sends, so that their message
            # timeout elapses during the hitch while the acknowledgement is already there
            mt = cfg.get("msg_timeout", 1.0)
            for op in [o for o in plan if o["op"] == "send" and o.get("retry") == 0 and o.get("cb")][:4]:
                plan.append({"op": "stall", "c": op["c"], "t": round(op["t"] + rng.choice([0.05, 0.2, 0.5]) * mt, 4),
                             "d": round(mt * rng.choice([0.6, 1.0, 1.3]), 3)})
        for j in range(rng.choice([0, 2, 6])):
            c = rng.randrange(n)
            link = rng.choice(["c%d>S" % c, "S>c%d" % c])
            plan.append({"op": "replay", "global": True, "t": round(t0 + rng.random() * (t1 - t0 + 2), 4), "link": link,
                         "back": rng.choice([0, 1, 5, 31, 32, 33, 40, 100, 300]), "times": rng.choice([1, 1, 3])})
        for j in range(rng.choice([0, 0, 3])):
            c = rng.randrange(n)
            frm, to = rng.choice([("c%d" % c, "S"), ("S", "c%d" % c)])
            plan.append({"op": "forge", "global": True, "t": round(t0 + rng.random() * (t1 - t0), 4), "frm": frm, "to": to,
                         "type": rng.choice([1, 2, 4, 6]), "inner": [rng.choice([4, 6])] * rng.choice([0, 1, 2]),
                         "ack": "all"})
        rng2 = random.Random("c07-extra|%s" % (rng.getstate()[1][:3],))         # (does not consume from the main stream)
        if rng2.random() < 0.25:
            # the server application greets every new client from inside its connect handler - with callbacks
            for j in range(rng2.choice([1, 2])):
                plan.append({"op": "hgreet", "t": 0.0, "len": rng2.choice([5, 300, 2500]), "retry": rng2.choice([0, -1, -1]), "cb": True,
                             "api": "send", "kind": 0})
        return case

    def gen_burst(self, rng, tier, i):
        """Delay only: everything one side sends during a window of 0.5-2 s is held back by the network and arrives together,
        in order, when the window ends (a route flap, a radio link that stalls); afterwards the network is perfect. The
        peer streams one datagram per tick the whole time (a large guaranteed message). Nothing was lost: the callbacks of
        the large message and of sends made after the burst have to fire, with True, in bounded time."""
        case = gen_traffic(rng, i, tier, nclients=1, n_msgs=2, long_latency=False, fault=False, entry=rng.choice(["bare", "twisted", "udpserver"]))
        cfg = case["cfg"]
        # (with a 1/60 s tick the sender's own 1/60 s send cap lets it emit on every second tick: 30 datagrams a second. A
        # 30 fps application reads exactly as fast as they arrive; a 60 fps one twice as fast)
        cfg["clients"][0]["dt"] = rng.choice([1 / 60, 1 / 30, 1 / 30])
        cfg["server"]["interval"] = 1 / 60
        cfg["latency"], cfg["jitter"] = rng.choice([0.005, 0.03]), 0.0
        plan = [op for op in case["plan"] if op["op"] == "connect"]
        for op in plan:
            op.pop("on_connect", None)
        big, small = rng.choice([("ssend", "send"), ("ssend", "send"), ("send", "ssend")])
        frag = limits(cfg["mtu"])["frag"]
        t0 = 1.5
        nfr = rng.choice([300, 600])                       # 5-10 s of one datagram per tick
        plan.append({"op": big, "c": 0, "t": t0, "len": frag * nfr, "kind": 0, "retry": -1, "cb": True, "api": "send"})
        d = rng.choice([0.5, 1.0, 1.5, 2.0])
        tb = t0 + 1.0
        cfg["phases"] = [dict({"src": "S", "dst": "c0"} if big == "ssend" else {"src": "c0", "dst": "S"}, t0=tb, t1=tb + d, hold=True)]
        for j in range(3):
            plan.append({"op": small, "c": 0, "t": round(tb + d + 0.5 + j, 3), "len": rng.choice([5, 200]), "kind": 0, "retry": -1,
                         "cb": True, "api": "send"})
        cfg["t_heal"] = tb + d
        cfg["duration"] = tb + d + nfr / 60.0 + 25.0
        case["plan"] = plan
        return case

    def gen_wrap(self, rng, tier, i):
        """Callbacks resolved early in a connection that then lives for more than 65535 datagrams: bookkeeping keyed by
        the 16-bit datagram sequence number must not fire an old callback again when the number is reused."""
        from checks.c04 import gen_dups
        case = gen_dups(rng, i, tier, wrap=True)
        cfg = case["cfg"]
        cfg["phases"] = [{"t0": 2.0, "t1": 3.3, "cut": True}, {"t0": 5.0, "t1": cfg["duration"], "dup": 0.01, "loss": 0.01}]
        cfg["t_heal"] = 5.0
        plan = [op for op in case["plan"] if op["op"] == "connect"]
        for j in range(12):
            plan.append({"op": rng.choice(["send", "ssend"]), "c": 0, "t": round(1.2 + j * 0.15, 3), "len": rng.choice([8, 30, 700]),
                         "kind": 0, "retry": rng.choice([0, 0, -1]), "cb": True, "api": "send"})
        case["plan"] = plan
        case["wrap"] = True
        return case

    def gen_ackedge(self, rng, tier, i):
        """One direction keeps sending a datagram per frame while every datagram of the reverse path is lost for
        k frames, k around 32: the first ack that gets through names the oldest datagrams only in the last bits
        of the 32-bit bitmap (or not at all when k > 33)."""
        case = gen_traffic(rng, i, tier, nclients=1, n_msgs=2, long_latency=False, fault=False, entry=rng.choice(["bare", "twisted", "udpserver"]))
        cfg = case["cfg"]
        cfg["clients"][0]["dt"] = 1 / 59        # just below the 60/s send cap: one datagram per frame / tick
        cfg["server"]["interval"] = 1 / 59
        cfg["latency"], cfg["jitter"], cfg["reactor_lag"] = 0.002, 0.0, 0.0
        sender = rng.choice(["send", "ssend"])
        k = rng.choice([29, 30, 31, 32, 33, 34, 36])
        t0 = 1.5
        plan = [op for op in case["plan"] if op["op"] == "connect"]
        for j in range(k + 6):
            plan.append({"op": sender, "c": 0, "t": round(t0 + j / 59.0, 5), "len": 12 + j % 5, "kind": 0, "retry": 0,
                         "cb": True, "api": "send"})
        back = {"send": "src", "ssend": "dst"}[sender]       # the path that carries the acks
        cfg["phases"] = [{"t0": t0 - 0.004, "t1": t0 + k / 59.0, back: "S", "cut": True}]
        cfg["t_heal"] = t0 + k / 59.0
        cfg["duration"] = t0 + k / 59.0 + 4.0
        case["plan"] = plan
        return case

    def monitors(self, case):
        self.mon = CallbackMonitor()
        self.fx = FragExpiryProbe()
        return [self.mon, self.fx]

    def prepare(self, w, case):
        Attacker(w)
        if case.get("wrap"):
            from checks.c04 import install_stream
            w.after_build.append(lambda w_: install_stream(w_, case))

    def nontrivial(self, w, case):
        return bool(sum(w.decider.counts.values())) and bool(w.cbs)

    def judge(self, w, case):
        vs = []
        mon = self.mon
        mtu = case["cfg"]["mtu"]
        cap1 = limits(mtu)["cap1"]
        cbs = collections.defaultdict(list)
        for t, mid, value in w.cbs:
            cbs[mid].append((t, value))
        open_names = set()
        for cn, cconn, sconn in open_pairs(w):
            open_names.add(w.conn_name(cconn))
            open_names.add(w.conn_name(sconn))
        # candidate peer connections by client address (a connection may be gone by the end of the run)
        peers = collections.defaultdict(list)
        by_client = collections.defaultdict(list)
        for sc in w.all_server_conns:
            by_client[w.net.name(sc.addr)].append(w.conn_name(sc))
        for inc in w.incarnations:
            cn_ = w.conn_name(inc["conn"])
            peers[cn_] = list(by_client.get(inc["name"], []))
            for sname in by_client.get(inc["name"], []):
                peers[sname].append(cn_)
        for rec in w.sends:
            # (a send made from inside the server's connect handler is judged even if the library reported another status
            # at that instant: the handler is only told about clients that are connected)
            if not rec["cb"] or rec["ok"] is not True or (rec["status"] != "CONNECTED" and not rec.get("from_connect_handler")):
                continue
            side = "server" if rec["who"] == "S" else "client"
            frag = rec["len"] > cap1
            shape = "frag" if frag else "single"
            mode = "guaranteed" if is_guaranteed(rec) else {0: "none", 1: "best_effort"}[rec["retry"]]
            calls = cbs.get(rec["mid"], [])
            cname = rec["conn"]
            conn_timeout = self._timeout_of(w, rec)
            # ---- truthfulness
            for t, value in calls:
                if value:
                    acc = sorted(t_ for p_ in peers.get(cname, ()) for t_ in mon.accepted.get((p_, rec["sig"]), ()))
                    if not any(ta <= t + 1e-9 for ta in acc):
                        cause, purged = "cause=unknown", []
                        if frag and not acc:
                            for p_ in peers.get(cname, ()):
                                cause, purged = self.fx.cause(w, rec, p_)
                                if purged:
                                    break
                        vs.append({"kind": "callback_true_before_peer_accepted", "key": "%s:%s:%s:%s" % (side, mode, shape, cause),
                                   "detail": {"mid": rec["mid"], "len": rec["len"], "t_cb": t, "accepted_at": acc[:3],
                                              "who": rec["who"], "mtu": mtu, "purged": purged}})
                else:
                    first_seq = R.ring_add(rec["msgseq0"], 1)
                    # first transmission of the message = earliest transmission of any of its fragments
                    # (first-fit packing may send a small last fragment before the first one)
                    fts, sq, guard = [], rec["msgseq0"], 0
                    while sq != rec["msgseq1"] and guard < 9000:
                        sq = R.ring_add(sq, 1)
                        guard += 1
                        if (cname, sq) in mon.first_tx:
                            fts.append(mon.first_tx[(cname, sq)])
                    ft = min(fts) if fts else None
                    if ft is not None and t - ft < conn_timeout * 0.995 - 1e-6:
                        vs.append({"kind": "callback_false_before_timeout", "key": "%s:%s:%s" % (side, mode, shape),
                                   "detail": {"mid": rec["mid"], "t_cb": t, "first_tx": ft, "timeout": conn_timeout}})
                    if not frag and ft is not None:
                        # no datagram that carried the message may have been acknowledged before the False
                        ackd = [mon.acked_at.get((cname, s, inst)) for s, inst in mon.carriers.get((cname, first_seq), ())]
                        ackd = [a for a in ackd if a is not None and a < t - 1e-9]
                        if ackd:
                            vs.append({"kind": "callback_false_after_ack_received", "key": "%s:%s:%s" % (side, mode, shape),
                                       "detail": {"mid": rec["mid"], "t_cb": t, "ack_seen_at": ackd[:3], "len": rec["len"]}})
            # ---- exactly once, while the connection stayed open
            if cname in open_names and mode != "best_effort" and rec["t"] < case["cfg"]["t_heal"] + 0.5:
                n = len(calls)
                if n != 1:
                    vs.append({"kind": "callback_count", "key": "%s:%s:%s:n=%s" % (side, mode, shape, "0" if n == 0 else "2+"),
                               "detail": {"mid": rec["mid"], "who": rec["who"], "len": rec["len"], "api": rec["api"],
                                          "calls": calls[:6], "t_sent": rec["t"], "mtu": mtu,
                                          "lenclass": lenclass(mtu, rec["len"])}})
                elif mode == "guaranteed" and calls[0][1] is not True:
                    vs.append({"kind": "guaranteed_callback_false", "key": "%s:%s" % (side, shape),
                               "detail": {"mid": rec["mid"], "calls": calls}})
        return vs

    @staticmethod
    def _timeout_of(w, rec):
        if rec["who"] == "S":
            return w.ctxt.outgoing_timeout
        cn = w.clients[int(rec["who"][1:])]
        c = cn.client
        return c.conn.outgoing_timeout if c is not None and c.conn is not None else 1.0


CHECK = C07()
