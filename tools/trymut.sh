#!/bin/sh
# trymut.sh <ID> <k> <CHECK> [extra bin/check args]  - run one check against a seeded change in a scratch worktree
id=$1; k=$2; chk=$3; shift 3
wt=/tmp/trywt_${id}_$k
git -C /repo worktree remove --force $wt >/dev/null 2>&1
git -C /repo worktree add -q $wt HEAD || exit 2
src=${SRC:-/tmp/mut/$id/out}/m$k.diff
[ -f $src ] || src=/verif/seeded/$id-m$k/patch.diff
(cd $wt && git apply --whitespace=nowarn $src) || { echo "patch failed"; git -C /repo worktree remove --force $wt; exit 2; }
cd /verif && VERIF_REPO=$wt bin/check $chk "$@" 2>&1 | grep -E "^violation|^VIOLATION|HARNESS|quick:|thorough:" | cut -c1-330
git -C /repo worktree remove --force $wt
