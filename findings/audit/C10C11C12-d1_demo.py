"""
C11 - a single established (anonymous) client can exhaust the server's memory
with a handful of small datagrams.

The receiver side of the fragmentation layer trusts the 16 bit "fragment
count" field of every APP_FRAGMENT message: _recvAppFragment() allocates
[None] * count for every unknown fragment id, Packet.MAX_FRAGMENTS (0x2000) is
only enforced by the *sender*, the number of partially received messages per
connection is unbounded and a receiver with count=65535 only expires after
1 + .5*65535 s = 9.1 hours (and only when another fragment arrives).

One 1.4KB datagram carrying 130 eleven-byte fragment messages
(count=65535, 130 different fragment ids) makes the server retain ~68MB.
15 such datagrams (21KB of traffic) pin 1GB, one datagram per server tick
allocates 4GB/s: the process is killed / the loop dies for every client.

run: PYTHONPATH=/tmp/aud/E /venv/bin/python d1_demo.py
"""
import struct
import time
import tracemalloc
import logging

from mpgameserver.context import ServerContext
from mpgameserver.handler import EventHandler
from mpgameserver.connection import ServerClientConnection, ClientServerConnection, \
    PacketHeader, Packet, PacketType, PendingMessage, SeqNum, ConnectionStatus

logging.disable(logging.CRITICAL)

now = [time.time()]
clock = lambda: now[0]

class Handler(EventHandler):
    def __init__(self):
        self.events = []
    def connect(self, client):
        self.events.append(("connect", client.addr))
    def handle_message(self, client, seqnum, msg):
        self.events.append(("message", client.addr, msg))

handler = Handler()
ctxt = ServerContext(handler)
addr = ("203.0.113.9", 4242)

# --- regular handshake, using the real connection classes -------------------
server = ServerClientConnection(ctxt, addr)
server.clock = clock
ctxt.temp_connections[addr] = server

client = ClientServerConnection(("srv", 1))
client.clock = clock
client._sendClientHello()

def c2s():
    pkt = client._build_packet()
    datagram = client._encode_packet(pkt)
    server._recv_datagram(PacketHeader.from_bytes(True, datagram), datagram)

def s2c():
    pkt, key, _ = server.update()
    datagram = pkt.to_bytes(key)
    client._recv_datagram(PacketHeader.from_bytes(False, datagram), datagram)

c2s()               # CLIENT_HELLO
now[0] += .05
s2c()               # SERVER_HELLO
now[0] += .05
c2s()               # CHALLENGE_RESP
assert handler.events == [("connect", addr)]
assert ctxt.connections[addr] is server and server.status == ConnectionStatus.CONNECTED

# --- the hostile datagram ---------------------------------------------------
# the attacker owns a completed session (anybody can get one) and therefore
# the session key. build one datagram with 130 fragment messages by hand.
def hostile_datagram(first_frag_id, n=130):
    msgs = []
    for i in range(n):
        client.seq_message += 1
        # frag_id, index, count
        payload = struct.pack(">HHH", first_frag_id + i, 2, 0xFFFF)
        msgs.append(PendingMessage(SeqNum(int(client.seq_message)), PacketType.APP_FRAGMENT, payload, None, 0))
    client.seq_sending += 1
    hdr = PacketHeader.create(False, int(now[0]), PacketType.APP_FRAGMENT,
        client.seq_sending, client.bitfield_pkt.current_seqnum, client.bitfield_pkt.bits)
    return Packet.create(hdr, msgs).to_bytes(client.session_key_bytes)

tracemalloc.start()
before, _ = tracemalloc.get_traced_memory()

received = 0
for k in range(3):
    now[0] += 1/60
    datagram = hostile_datagram(1 + 130 * k)
    assert len(datagram) <= Packet.MAX_SIZE, len(datagram)
    received += len(datagram)
    assert server._recv_datagram(PacketHeader.from_bytes(True, datagram), datagram)

after, _ = tracemalloc.get_traced_memory()
retained = after - before
slots = sum(len(r.fragments) for r in server.received_fragments.values())

print("hostile bytes received : %d" % received)
print("partial messages held  : %d" % len(server.received_fragments))
print("fragment slots held    : %d (Packet.MAX_FRAGMENTS is %d per message)" % (slots, Packet.MAX_FRAGMENTS))
print("memory retained        : %.1f MB" % (retained / 1e6))
print("expires after          : %.1f hours" % ((1.0 + .5 * 0xFFFF) / 3600))

# nothing was delivered, nothing is ever going to complete
assert handler.events == [("connect", addr)]

# ~4KB of datagrams must not pin hundreds of megabytes of server memory
assert retained < 1000 * received, \
    "%d bytes of datagrams made the server retain %d bytes" % (received, retained)
# the sender side refuses to build a message with more than MAX_FRAGMENTS
# fragments. the receiver must not reserve room for more than that either
assert all(len(r.fragments) <= Packet.MAX_FRAGMENTS for r in server.received_fragments.values()), \
    "receiver accepted a fragment count of %d > Packet.MAX_FRAGMENTS" % max(len(r.fragments) for r in server.received_fragments.values())

print("ok")
