#!/venv/bin/python
"""
d4 (low severity): the header codec does not round trip the `isServer` field.

PacketHeader documents  ":attr isServer: True when it is the server
constructing the header", and to_bytes() writes the direction identifier from
it (True -> b"FSOC" = TO_CLIENT).  from_bytes() however sets
    hdr.isServer = (ident == TO_SERVER)
i.e. "the *receiver* is the server".  A header built by the server with
isServer=True decodes (at the client, the only place where it is accepted) to
isServer=False, and a decoded header does not encode to the bytes it was
decoded from: the direction identifier flips.

exit status 0: decode(encode(h)) == h and encode(decode(d)) == d for both
directions; 1: violation
"""
import sys, os
sys.path.insert(0, os.path.join(os.path.dirname(os.path.abspath(__file__)), ".."))
from mpgameserver.connection import PacketHeader, Packet, PacketType, SeqNum, PendingMessage

FIELDS = ("isServer", "ctime", "pkt_type", "seq", "ack", "ack_bits", "length", "count")
ok = True
for made_by_server in (True, False):
    for key in (None, b"k" * 16):
        hdr = PacketHeader.create(made_by_server, 1234567, PacketType.APP, SeqNum(7), SeqNum(9), 0x80000001)
        pkt = Packet.create(hdr, [PendingMessage(SeqNum(3), PacketType.APP, b"payload", None, 0)])
        datagram = pkt.to_bytes(key)
        # a header made by the server is decoded by the client and vice versa
        dec = PacketHeader.from_bytes(not made_by_server, datagram)
        Packet.from_bytes(dec, key, datagram)          # decodes fine
        diff = [(f, getattr(hdr, f), getattr(dec, f)) for f in FIELDS if getattr(hdr, f) != getattr(dec, f)]
        if diff:
            ok = False
            print("made_by_server=%-5s %s: decoded header differs (field, encoded, decoded): %r" % (
                made_by_server, "encrypted" if key else "crc", diff))
        if dec.to_bytes() != datagram[:PacketHeader.SIZE]:
            ok = False
            print("made_by_server=%-5s %s: re-encoding the decoded header gives %r..., the datagram has %r..." % (
                made_by_server, "encrypted" if key else "crc", dec.to_bytes()[:4], datagram[:4]))
sys.exit(0 if ok else 1)
