"""C18 - WebSocket frames round-trip per RFC 6455; TCP segmentation is harmless."""
import json
import random

from simkit.runner import h64
from world import wsworld as W
import mpgameserver.http_server as http_mod

LENS = [0, 1, 2, 5, 124, 125, 126, 127, 128, 129, 255, 256, 1000, 4095, 4096, 65534, 65535, 65536, 65537, 70000]
CUT_MODES = ["frame-per-read", "all-in-one", "bytewise", "random", "in-header", "in-extlen", "in-mask", "in-payload",
             "two-frames-per-read", "frame-plus-one-byte"]


def header_len(n, masked):
    return 2 + (2 if 126 <= n <= 0xFFFF else 8 if n > 0xFFFF else 0) + (4 if masked else 0)


class C18:
    pid = "C18"
    level = "exploration"
    budget = {"quick": 45, "thorough": 600}
    ncases = {"quick": 30000, "thorough": 1000000}
    n_samples = 5
    components_real = ["mpgameserver/http_server.py: HTTPFactory.Channel (dataReceived/raw mode), RequestFactory.process, "
                       "Router.dispatch/getRoute, upgrade_websocket, WebSocketTemporaryHandler, WebSocketTemporaryRingBuffer, "
                       "WebSocketFrame (parse/serialize/factories), readFrameFactory/writeFrameFactory, Resource/@websocket",
                       "twisted.web.http HTTPChannel / Request (real), twisted.internet.task.Clock"]
    components_stub = ["TCP transport (twisted StringTransport + setTcpNoDelay), TCP segmentation (seeded cut points), the "
                       "client (independent RFC 6455 encoder), the endpoint application, time (virtual), stdout/logging"]
    assumptions = ["Twisted's HTTP request parsing is correct (it only carries the upgrade request)",
                   "the encode/parse round trip needs no schedule; it is checked inside this world because the same frames are the workload"]
    rule = ("case = list of 1-6 client frames (opcodes text/binary/ping/pong/close, random masking keys, payload lengths "
            "stratified over 0,1,125,126,127,128,65535,65536,65537,70000 and random) + one way of cutting the concatenated "
            "stream into TCP reads (one frame per read, everything in one read, byte by byte, random cuts, a cut inside the "
            "2-byte header / the extended length / the mask / the payload, two frames per read, frame plus one byte) + a list "
            "of server-built frames (Text/Binary/Ping/Pong/Close x boundary lengths x mask flag).  oracle: endpoint log == "
            "frames sent (once, in order, unmasked); every server-written frame is byte-identical to an independent RFC 6455 "
            "encoding and parses back (library parser and reference parser).  non-trivial = at least one read boundary fell "
            "inside a frame or a read held more than one frame, or a boundary length (125-128, 65535-65537) was used; "
            "distinct = (frames, cuts) tuple")

    # ------------------------------------------------------------------ generation
    def cases(self, tier, seed):
        for i in range(self.ncases[tier]):
            rs = h64(seed, self.pid, i)
            rng = random.Random(rs)
            nf = rng.choice([1, 1, 2, 3, 6])
            frames = []
            for j in range(nf):
                op = rng.choice(["text", "text", "binary", "binary", "ping", "pong"])
                if rng.random() < 0.6:
                    n = LENS[(i + j * 7) % len(LENS)]
                else:
                    n = rng.randrange(0, 300) if rng.random() < 0.7 else rng.randrange(0, 70001)
                if op in ("ping", "pong"):
                    n = min(n, 125)
                frames.append({"op": op, "len": n, "mask": rng.randrange(2 ** 32), "fill": rng.randrange(256)})
            if rng.random() < 0.15:
                # RFC 6455 5.4: one message split into fragments (first frame: opcode + FIN=0, then continuation frames, the
                # last with FIN=1); control frames may travel between the fragments; a text fragment may end inside a
                # multi-byte character. The endpoint gets the message once, complete, in the position of its last fragment
                whole = {"op": rng.choice(["text", "text", "binary"]), "len": rng.choice([2, 5, 10, 11, 40, 126, 300, 65536, 70000]),
                         "fill": rng.choice([0, 3, 6, 7]), "mask": 0}
                nfr = rng.choice([2, 2, 3, 5])
                cutsf = sorted(rng.randrange(0, whole["len"] + 1) for _ in range(nfr - 1))
                edges = [0] + cutsf + [whole["len"]]
                frag = []
                for k in range(nfr):
                    frag.append({"op": whole["op"] if k == 0 else "cont", "fin": 1 if k == nfr - 1 else 0, "of": whole,
                                 "slice": [edges[k], edges[k + 1]], "len": edges[k + 1] - edges[k], "mask": rng.randrange(2 ** 32), "fill": 0})
                    if k < nfr - 1 and rng.random() < 0.3:
                        frag.append({"op": rng.choice(["ping", "pong"]), "len": rng.choice([0, 3, 125]), "mask": rng.randrange(2 ** 32),
                                     "fill": rng.randrange(256)})
                at = rng.randrange(0, len(frames) + 1)
                frames[at:at] = frag
            if rng.random() < 0.2:
                frames.append({"op": "close", "len": 2, "mask": rng.randrange(2 ** 32), "fill": 3})
            mode = CUT_MODES[i % len(CUT_MODES)]
            built = []
            for j in range(rng.choice([1, 2, 3])):
                built.append({"kind": rng.choice(["Text", "Binary", "Ping", "Pong", "Close"]),
                              "len": LENS[(i * 3 + j) % len(LENS)] if rng.random() < 0.7 else rng.randrange(0, 70001),
                              "mask": rng.randrange(2)})
            # (drawn from a second stream so that the cases of earlier versions of this generator stay what they were)
            rng2 = random.Random(h64(rs, "content"))
            for f in frames:
                if "of" not in f and f["op"] in ("text", "binary") and rng2.random() < 0.2:
                    # payloads that begin with bytes a decoder may be tempted to strip or to treat specially: a byte
                    # order mark, NUL characters, line separators, leading zero bytes
                    f["lead"] = rng2.choice(LEADS_TEXT if f["op"] == "text" else LEADS_BIN)
            for b in built:
                b["ba"] = rng2.randrange(2)         # payload handed over as a bytearray (as the library reader returns it)
            case = {"seed": rs, "frames": frames, "mode": mode, "cuts": None, "built": built}
            if rng.random() < 0.3:
                # a second connection to the same factory, before or interleaved with the first; it may end in the middle of a frame
                case["neighbour"] = {"how": rng.choice(["before", "interleaved"]),
                                     "frames": [{"op": rng.choice(["text", "binary"]), "len": rng.choice([0, 3, 40, 126, 300]),
                                                 "mask": rng.randrange(2 ** 32), "fill": rng.randrange(256)} for _ in range(rng.choice([1, 2, 3]))],
                                     "partial": rng.choice([0, 0, 1, 3, 7, 30]), "chunk": rng.choice([1, 5, 64, 100000])}
            if len(frames) >= 2 and rng.random() < 0.15:
                # the endpoint starts a server side close while client frames are still in flight
                case["close_at"] = rng.randrange(1, len(frames))
            yield i, case

    @staticmethod
    def payload(f):
        if "of" in f:
            a, b = f["slice"]
            return C18.payload(f["of"])[a:b]
        n = f["len"]
        if f.get("lead"):
            lead = f["lead"].encode("utf-8") if f["op"] == "text" else bytes.fromhex(f["lead"])
            if n >= len(lead):
                g = dict(f, len=n - len(lead))
                g.pop("lead")
                return lead + C18.payload(g)
        if f["op"] == "text":
            if f["fill"] % 3 == 0 and n >= 4:
                # valid UTF-8 with 2-, 3- and 4-byte characters, padded with ASCII to exactly n bytes
                unit = "a\u00e9\u20ac\U0001F600".encode("utf-8")      # 1 + 2 + 3 + 4 = 10 bytes
                body = unit * (n // len(unit))
                return body + b"z" * (n - len(body))
            return bytes(0x20 + ((f["fill"] + k) % 0x5F) for k in range(n)) if n < 512 else \
                (bytes(0x20 + ((f["fill"] + k) % 0x5F) for k in range(95)) * (n // 95 + 1))[:n]
        if f["op"] == "close":
            return b"\x03\xe8"[:n]
        return (bytes((f["fill"] + k) & 0xFF for k in range(256)) * (n // 256 + 1))[:n]

    def make_cuts(self, case, enc):
        """cut offsets into the concatenated stream (strictly increasing, exclusive of 0 and end)."""
        if case.get("cuts") is not None:
            return case["cuts"]
        rng = random.Random("cuts|%s" % case["seed"])
        total = sum(len(e) for e in enc)
        bounds = []
        off = 0
        for e in enc:
            off += len(e)
            bounds.append(off)
        frame_ends = bounds[:-1]
        mode = case["mode"]
        starts = [0] + frame_ends
        if mode == "frame-per-read":
            cuts = frame_ends
        elif mode == "all-in-one":
            cuts = []
        elif mode == "bytewise":
            cuts = list(range(1, total)) if total <= 600 else sorted(set(list(range(1, 40)) + frame_ends + [b + 1 for b in frame_ends if b + 1 < total]))
        elif mode == "random":
            k = rng.randrange(1, 8)
            cuts = sorted({rng.randrange(1, total) for _ in range(k)}) if total > 1 else []
        elif mode == "two-frames-per-read":
            cuts = frame_ends[1::2]
        elif mode == "frame-plus-one-byte":
            cuts = [b + 1 for b in frame_ends if b + 1 < total]
        else:
            cuts = set(frame_ends)
            for s, e, f in zip(starts, enc, case["frames"]):
                n = f["len"]
                hl = header_len(n, True)
                if mode == "in-header":
                    cuts.add(s + 1)
                elif mode == "in-extlen" and n >= 126:
                    cuts.add(s + 2 + rng.randrange(1, 2 if n <= 0xFFFF else 8))
                elif mode == "in-extlen":
                    cuts.add(s + 2)
                elif mode == "in-mask":
                    cuts.add(s + hl - rng.randrange(1, 4))
                elif mode == "in-payload" and n > 1:
                    cuts.add(s + hl + rng.randrange(1, n))
                elif mode == "in-payload":
                    cuts.add(s + hl)
            cuts = sorted(c for c in cuts if 0 < c < total)
        return [c for c in cuts if 0 < c < total]

    # ------------------------------------------------------------------ execution
    def execute(self, case):
        frames = case["frames"]
        enc = []
        for f in frames:
            key = struct_pack_key(f["mask"])
            enc.append(W.ref_encode(W.OPC[f["op"]], self.payload(f), key, fin=f.get("fin", 1)))
        stream = b"".join(enc)
        cuts = self.make_cuts(case, enc)
        vs = []
        nb = case.get("neighbour")
        with W.WsWorld() as w:
            chunks = []
            prev = 0
            for c in cuts + [len(stream)]:
                if c > prev:
                    chunks.append(stream[prev:c])
                prev = c
            nconn = None
            nchunks = []
            if nb:
                nenc = [W.ref_encode(W.OPC[f["op"]], self.payload(f), struct_pack_key(f["mask"])) for f in nb["frames"]]
                nstream = b"".join(nenc)
                if nb["partial"]:
                    nstream += W.ref_encode(0x2, b"P" * 200, b"\x01\x02\x03\x04")[: nb["partial"]]
                nchunks = [nstream[k:k + nb["chunk"]] for k in range(0, len(nstream), nb["chunk"])]
                nconn = w.connect()
                nhead = nconn.upgrade()
                if nconn.opened != 1 or not nhead.startswith(b"HTTP/1.1 101"):
                    return {"harness_error": "neighbour upgrade failed: %r" % nhead[:80], "violations": []}
                if nb["how"] == "before":
                    for ch in nchunks:
                        nconn.feed(ch)
                    nchunks = []
            head = w.upgrade()
            if w.opened != 1 or not head.startswith(b"HTTP/1.1 101"):
                return {"harness_error": "upgrade failed: %r" % head[:80], "violations": []}
            if case.get("close_at"):
                w.conns[0].close_at = case["close_at"]
            alive = True
            k = 0
            while k < len(chunks) or k < len(nchunks):
                if k < len(nchunks):
                    nconn.feed(nchunks[k])
                if k < len(chunks) and alive:
                    alive = w.feed(chunks[k])
                k += 1
            if nb:
                nexp = [(f["op"].capitalize(), self.payload(f).decode("utf-8") if f["op"] == "text" else self.payload(f)) for f in nb["frames"]]
                ngot = [(op, bytes(p) if not isinstance(p, str) else p) for op, p in nconn.log]
                if ngot != nexp or nconn.errors:
                    vs.append({"kind": "endpoint_log_differs_from_frames_sent", "key": "second-connection:" + nb["how"],
                               "detail": {"sent": [(f["op"], f["len"]) for f in nb["frames"]], "got": [(op, len(p)) for op, p in ngot[:6]],
                                          "errors": nconn.errors[:2], "partial": nb["partial"]}})
            if w.strays:
                vs.append({"kind": "frame_delivered_for_no_connection", "key": "stray", "detail": [(op, len(p or b"")) for op, p in w.strays[:4]]})
            # ---- oracle 1: endpoint log == frames sent
            expect = []
            for f in frames:
                if "of" in f:
                    if not f["fin"]:
                        continue            # the message is handed over when its last fragment is there
                    f = f["of"]
                p = self.payload(f)
                expect.append((f["op"].capitalize(), p.decode("utf-8") if f["op"] == "text" else p))
            got = [(op, bytes(p) if not isinstance(p, str) else p) for op, p in w.log]
            inside = self._cuts_inside(enc, cuts)
            if got != expect:
                first = next((k for k, (a, b) in enumerate(zip(got, expect)) if a != b), min(len(got), len(expect)))
                shape = "coalesced" if inside["coalesced"] and not inside["split"] else "split" if inside["split"] else "aligned"
                if any("of" in f for f in frames):
                    shape = "fragmented-message"
                elif nb:
                    shape = "with-second-connection:" + nb["how"]
                elif case.get("close_at"):
                    shape = "after-server-side-close"
                why = "boundary-len" if shape == "aligned" and any(f["len"] in (126, 127, 65535, 65536) or f["len"] > 65535 for f in frames) else shape
                vs.append({"kind": "endpoint_log_differs_from_frames_sent", "key": why,
                           "detail": {"mode": case["mode"], "sent": [(f["op"], f["len"]) for f in frames], "n_got": len(got),
                                      "first_difference_at": first, "errors": w.errors[:2],
                                      "got_head": [(op, len(p)) for op, p in got[:6]], "cuts": cuts[:8]}})
            # ---- oracle 2: frames written by the server side (echo of text frames), against the reference codec
            wrote = w.written()
            dec, left = W.ref_decode_all(wrote)
            if got == expect:
                # every frame the server wrote is canonical RFC 6455 (unmasked, minimal length form, nothing left over) ...
                canon = b"".join(W.ref_encode(opc, body, None, fin) for fin, opc, masked, body in dec)
                if left or canon != wrote or any(masked for _f, _o, masked, _b in dec):
                    bad = next((k for k in range(min(len(canon), len(wrote))) if canon[k] != wrote[k]), min(len(canon), len(wrote)))
                    lk = "?"
                    off = 0
                    for fin, opc, masked, body in dec:
                        e = W.ref_encode(opc, body, None, fin)
                        if off <= bad < off + len(e) + 8:
                            lk = lenkey(len(body))
                            break
                        off += len(e)
                    vs.append({"kind": "server_frame_not_rfc6455", "key": "echo:len=%s" % lk,
                               "detail": {"first_bad_byte": bad, "leftover": left, "got_head": wrote[max(0, bad - 4):bad + 12].hex()}})
                else:
                    # ... the text echoes are the client's text frames, once each and in order (other frames the server may
                    # add, e.g. a pong, and its close frames are not this property's business)
                    texts = [body for fin, opc, masked, body in dec if opc == 0x1]
                    exp_texts = [self.payload(f.get("of", f)) for f in frames if f.get("of", f)["op"] == "text" and f.get("fin", 1)]
                    if texts != exp_texts:
                        k = next((k for k, (a, b) in enumerate(zip(texts, exp_texts)) if a != b), min(len(texts), len(exp_texts)))
                        vs.append({"kind": "server_frame_not_rfc6455", "key": "echo:len=%s" % lenkey(len(exp_texts[k]) if k < len(exp_texts) else 0),
                                   "detail": {"echo": k, "n_written": len(texts), "n_expected": len(exp_texts)}})
            # ---- oracle 3: the library's frame factories, every boundary length, through writeFrame / readFrame
            for b in case["built"]:
                v = self.check_built(b)
                if v:
                    vs.append(v)
        seen = set()
        out = []
        for v in vs:
            s = (v["kind"], v["key"])
            if s not in seen:
                seen.add(s)
                out.append(v)
        nontrivial = inside["split"] > 0 or inside["coalesced"] > 0 or any(
            f["len"] in (125, 126, 127, 128, 65535, 65536, 65537) for f in frames)
        return {"seed": case["seed"], "violations": out, "digest": "%016x" % h64(json.dumps([frames, cuts], sort_keys=True)),
                "nontrivial": nontrivial, "class": "%016x" % h64(json.dumps([[(f["op"], f["len"]) for f in frames], cuts])),
                "faults": {"read_boundary_inside_frame": inside["split"], "reads_with_more_than_one_frame": inside["coalesced"],
                           "reads": len(cuts) + 1},
                "probes": {"frames_sent": len(frames), "frame_split_inside_header": inside["in_header"],
                           "frames_coalesced": inside["coalesced"], "server_built_frames_checked": len(case["built"])},
                "sim_s": 0.0, "events": len(cuts) + 1,
                "sample": {"frames": [(f["op"], f["len"]) for f in frames], "mode": case["mode"], "cuts": cuts[:10],
                           "endpoint_saw": [(op, len(p)) for op, p in w.log[:8]], "errors": w.errors[:2],
                           "outcome": "violation" if out else "pass"}}

    @staticmethod
    def _cuts_inside(enc, cuts):
        ends = []
        off = 0
        for e in enc:
            off += len(e)
            ends.append(off)
        total = off
        split = sum(1 for c in cuts if c not in ends)
        in_header = 0
        starts = [0] + ends[:-1]
        for c in cuts:
            for s in starts:
                if s < c < s + 2:
                    in_header += 1
        reads = [0] + list(cuts) + [total]
        coalesced = 0
        for a, b in zip(reads, reads[1:]):
            if sum(1 for e in ends if a < e <= b) > 1 or (sum(1 for e in ends if a < e <= b) == 1 and b not in ends):
                coalesced += 1
        return {"split": split, "coalesced": coalesced, "in_header": in_header}

    def check_built(self, b):
        """Library-built frame -> writeFrame -> bytes == reference encoding; bytes -> library parser == same frame."""
        n = b["len"]
        kind = b["kind"]
        F = http_mod.WebSocketFrame
        if kind == "Text":
            body = ("x" * n) if n % 2 else ("\u00e9" * (n // 2))       # n bytes either way; non-ASCII for even n
            frame = F.Text(body)
            payload = body.encode("utf-8")
        elif kind == "Binary":
            payload = (bytes(range(256)) * (n // 256 + 1))[:n]
            frame = F.Binary(bytearray(payload) if b.get("ba") else payload)
        elif kind in ("Ping", "Pong"):
            payload = (b"p" * n)
            frame = getattr(F, kind)(bytearray(payload) if b.get("ba") else payload)
        else:
            payload = struct_pack_status(1000) + b"c" * n
            frame = F.Close(1000, b"c" * n)
        key = None
        if b["mask"]:
            key = b"\x11\x22\x33\x44"
            frame.flags.mask = 1
            frame.masking_key = key
            # RFC 6455 5.3: with the mask bit set the payload travels XORed with the key - the library has to do that
        opc = {"Text": 1, "Binary": 2, "Ping": 9, "Pong": 10, "Close": 8}[kind]
        ref = W.ref_encode(opc, payload, key)

        class Sock:
            def __init__(self):
                self.buf = b""

            def sendall(self, d):
                self.buf += bytes(d)

            def recv(self, k):
                d, self.buf = self.buf[:k], self.buf[k:]
                return d
        s = Sock()
        lk = lenkey(len(payload))
        try:
            http_mod.writeFrameFactory(s)(frame)
        except Exception as e:      # noqa
            return {"kind": "writeFrame_raised", "key": "%s:%s" % (kind, lk), "detail": str(e)[:100]}
        if s.buf != ref:
            return {"kind": "server_frame_not_rfc6455", "key": "built:len=%s" % lk,
                    "detail": {"kind": kind, "len": len(payload), "mask": b["mask"], "got_head": s.buf[:14].hex(), "ref_head": ref[:14].hex(),
                               "got_len": len(s.buf), "ref_len": len(ref)}}
        # the encoding is a function of the frame: writing must not change the frame, and a second write of the same
        # object gives the same bytes
        if bytes(frame.payload) != bytes(payload):
            return {"kind": "frame_changed_by_writing_it", "key": "%s:mask=%d" % (kind, b["mask"]),
                    "detail": {"len": len(payload), "bytearray": b.get("ba", 0)}}
        s1 = Sock()
        try:
            http_mod.writeFrameFactory(s1)(frame)
        except Exception as e:      # noqa
            return {"kind": "writeFrame_raised", "key": "%s:%s:second" % (kind, lk), "detail": str(e)[:100]}
        if s1.buf != ref:
            return {"kind": "server_frame_not_rfc6455", "key": "built-second-write:len=%s" % lk,
                    "detail": {"kind": kind, "len": len(payload), "mask": b["mask"], "got_head": s1.buf[:14].hex(), "ref_head": ref[:14].hex()}}
        # parse the reference bytes back with the library parser
        s2 = Sock()
        s2.buf = ref
        try:
            back = http_mod.readFrameFactory(s2)()
        except Exception as e:      # noqa
            return {"kind": "library_parser_raised_on_valid_frame", "key": "len=%s" % lk, "detail": str(e)[:100]}
        if bytes(back.payload) != bytes(payload) or back.flags.opcode.value != opc or back.flags.fin != 1 or back.flags.mask != (1 if key else 0) or s2.buf:
            return {"kind": "frame_does_not_parse_back", "key": "len=%s" % lk,
                    "detail": {"kind": kind, "len": len(payload), "mask": b["mask"], "parsed_len": len(back.payload), "leftover": len(s2.buf)}}
        # ... and the frame the library parser returned (its payload is a bytearray) encodes to the same bytes again
        s3 = Sock()
        try:
            http_mod.writeFrameFactory(s3)(back)
            again = s3.buf
            s3.buf = b""
            http_mod.writeFrameFactory(s3)(back)
        except Exception as e:      # noqa
            return {"kind": "writeFrame_raised", "key": "%s:%s:parsed" % (kind, lk), "detail": str(e)[:100]}
        if again != ref or s3.buf != ref:
            return {"kind": "parsed_frame_does_not_encode_back", "key": "len=%s:mask=%d" % (lk, b["mask"]),
                    "detail": {"kind": kind, "len": len(payload), "first_ok": again == ref, "second_ok": s3.buf == ref}}
        return None

    # ------------------------------------------------------------------ shrinking
    def pin_fates(self, case, result):
        c = json.loads(json.dumps(case))
        enc = [W.ref_encode(W.OPC[f["op"]], self.payload(f), struct_pack_key(f["mask"])) for f in c["frames"]]
        c["cuts"] = self.make_cuts(c, enc)
        return c

    def shrinkable(self, case):
        return [("built", lambda c: c["built"], lambda c, v: c.__setitem__("built", v)),
                ("cuts", lambda c: c["cuts"] or [], lambda c, v: c.__setitem__("cuts", v))]


LEADS_TEXT = ["\ufeff", "\ufeff\ufeff", "\u0000", "\u2028", "\ufffd", " \t", "\r\n", "\U0001F600"]
LEADS_BIN = ["000000", "00", "efbbbf", "ff", "8100"]


def lenkey(n):
    return str(n) if n in (125, 126, 127, 128, 65535, 65536, 65537) else "le125" if n < 126 else "16bit" if n <= 0xFFFF else "64bit"


def struct_pack_key(m):
    return m.to_bytes(4, "big")


def struct_pack_status(s):
    return s.to_bytes(2, "big")


CHECK = C18()
