#!/venv/bin/python
"""coverage_report.py <dir> [--files a.py,b.py] [--out FILE]
Merges the line sets written by runs with VERIF_COVERAGE=<dir> (simkit/runner.py) and lists, per source file of the
repository under test, the executable lines that no simulated run executed.  'Executable' = lines that carry code
according to the compiled code objects (co_lines), minus docstrings; lines inside `if __name__ == "__main__"` blocks,
`def main` and classes marked `# pragma: no cover` are still listed (the simulator runs _UdpServer, which carries that
pragma)."""
import os
import sys
import json
import glob
import argparse
import collections

REPO = os.environ.get("VERIF_REPO", "/repo")
ANCHORED = ["connection.py", "client.py", "server.py", "context.py", "twisted.py", "crypto.py", "handler.py",
            "http_server.py"]


def executable_lines(path):
    src = open(path, "rb").read()
    code = compile(src, path, "exec")
    lines = set()
    funcs = {}

    def walk(co, qual):
        isfunc = bool(co.co_flags & 0x2)         # CO_NEWLOCALS: a function body (module and class bodies run at import)
        first = co.co_firstlineno
        for _, _, ln in co.co_lines():
            if ln is not None and ln > 0 and isfunc and ln != first:
                lines.add(ln)
                funcs[ln] = qual
        for c in co.co_consts:
            if hasattr(c, "co_lines"):
                walk(c, (qual + "." if qual else "") + c.co_name)
    walk(code, "")
    return lines, funcs


def main():
    ap = argparse.ArgumentParser()
    ap.add_argument("dir")
    ap.add_argument("--files", default=",".join(ANCHORED))
    ap.add_argument("--out")
    a = ap.parse_args()
    hit = collections.defaultdict(set)
    by_check = collections.defaultdict(lambda: collections.defaultdict(set))
    for f in glob.glob(os.path.join(a.dir, "*.json")):
        chk = os.path.basename(f).split("-")[0]
        for fn, ln in json.load(open(f)):
            hit[fn].add(ln)
            by_check[chk][fn].add(ln)
    out = []
    summary = {}
    for fn in a.files.split(","):
        path = os.path.join(REPO, "mpgameserver", fn)
        ex, funcs = executable_lines(path)
        src = open(path, "rb").read().decode("utf8", "replace").splitlines()
        miss = sorted(ex - hit[fn])
        # module-level lines (imports, defs) are executed at import time, before the instrument starts in a forked
        # worker: a def line whose body was hit counts as hit
        miss = [l for l in miss if funcs.get(l, "") != ""]
        summary[fn] = {"executable": len([l for l in ex if funcs.get(l, "") != ""]), "missed": len(miss)}
        out.append("## %s: %d of %d function-body lines never executed" % (fn, len(miss), summary[fn]["executable"]))
        cur = None
        for l in miss:
            q = funcs.get(l)
            if q != cur:
                out.append("  [%s]" % q)
                cur = q
            out.append("    %5d  %s" % (l, src[l - 1].rstrip()[:150]))
    text = "\n".join(out)
    if a.out:
        open(a.out, "w").write(text + "\n")
    else:
        print(text)
    print(json.dumps(summary), file=sys.stderr)


if __name__ == "__main__":
    main()
