#! PYTHONPATH=/tmp/aud/A /venv/bin/python d2_demo.py
"""
C01 - an unauthenticated datagram received before the key exists moves the
receive windows, and the damage survives into the keyed connection.

_recv_datagram() / _recv_message() insert the packet sequence number and the
message sequence number of an unencrypted SERVER_HELLO typed datagram into
bitfield_pkt / bitfield_msg (and run the ack processing and the liveness
clock) BEFORE _recvServerHello() verifies the signature. A forged hello
(any payload, valid crc32) is rejected by the signature check, but the
windows keep the attacker chosen numbers.

Here the attacker picks message sequence number 2 (and packet sequence 0,
which leaves the packet window alone). The genuine handshake then completes
normally. The first message the server sends (message seq 2), sent with
RetryMode.RETRY_ON_TIMEOUT, encrypted and authenticated, is acked by the
client but silently thrown away as a "duplicate": one forged plaintext
datagram decided the fate of an authenticated message.
No loss, duplication or reordering on the network.
"""
import sys
import struct
import logging
logging.disable(logging.CRITICAL)

from mpgameserver.connection import ClientServerConnection, ServerClientConnection, \
    PacketHeader, PacketType, ConnectionStatus, RetryMode, SeqNum
from mpgameserver.context import ServerContext
from mpgameserver.handler import EventHandler
from mpgameserver.crypto import EllipticCurvePrivateKey
from mpgameserver import crypto

NOW = [1000.0]
clock = lambda: NOW[0]

def forged_server_hello(pkt_seq, msg_seq, payload=b"not a hello at all"):
    """ plaintext datagram, type SERVER_HELLO, one message, correct crc.
    needs no secret of any kind """
    body = struct.pack(">H", msg_seq) + payload
    hdr = PacketHeader.create(True, int(clock()), PacketType.SERVER_HELLO, SeqNum(pkt_seq), SeqNum(0), 0)
    hdr.length = len(body)
    hdr.count = 1
    datagram = hdr.to_bytes() + body
    return datagram + struct.pack(">L", crypto.crc32(datagram))

def client_recv(conn, datagram):
    hdr = PacketHeader.from_bytes(False, datagram)
    return conn._recv_datagram(hdr, datagram)

def server_recv(conn, datagram):
    hdr = PacketHeader.from_bytes(True, datagram)
    return conn._recv_datagram(hdr, datagram)

def flush(conn):
    NOW[0] += 0.05
    pkt = conn._build_packet()
    if pkt is None:
        return []
    return [pkt.to_bytes(conn.session_key_bytes)]

def run(inject):
    root = EllipticCurvePrivateKey.new()
    ctxt = ServerContext(EventHandler(), root)
    ADDR = ("10.0.0.1", 40000)

    client = ClientServerConnection(("10.0.0.9", 1474))
    client.clock = clock
    client.setServerPublicKey(root.getPublicKey())
    client._sendClientHello()
    (ch,) = flush(client)

    before = None
    if inject:
        # the client is waiting for the hello and holds no key
        assert client.session_key_bytes is None
        try:
            client_recv(client, forged_server_hello(pkt_seq=0, msg_seq=2))
        except Exception as e:
            # UdpClient.update() lets this propagate to the game loop
            print("     forged hello rejected with %s" % type(e).__name__)
        assert client.session_key_bytes is None
        assert client.status == ConnectionStatus.CONNECTING

    # genuine handshake, nothing lost
    server = ServerClientConnection(ctxt, ADDR)
    server.clock = clock
    ctxt.temp_connections[ADDR] = server
    server_recv(server, ch)
    (sh,) = flush(server)
    client_recv(client, sh)
    (cr,) = flush(client)
    server_recv(server, cr)
    assert client.status == ConnectionStatus.CONNECTED
    assert server.status == ConnectionStatus.CONNECTED
    assert client.session_key_bytes == server.session_key_bytes

    # the server sends three guaranteed messages, one datagram each
    results = {}
    delivered = []
    for i in range(3):
        payload = b"state-%d" % i
        server.send_guaranteed(payload, callback=lambda ok, p=payload: results.setdefault(p, ok))
        for datagram in flush(server):
            client_recv(client, datagram)
        delivered.extend(msg for seq, msg in client.incoming_messages)
        client.incoming_messages = []
        # the client acks with its next keep alive
        for datagram in flush(client):
            server_recv(server, datagram)
    # one more exchange so that the last ack arrives as well
    for datagram in flush(server):
        client_recv(client, datagram)
    for datagram in flush(client):
        server_recv(server, datagram)
    return results, delivered

print("--- reference run without the forged datagram")
results, delivered = run(False)
print("     send callbacks:", results)
print("     delivered     :", delivered)
assert delivered == [b"state-0", b"state-1", b"state-2"]

print("--- same run, one forged plaintext SERVER_HELLO injected before the key exists")
results, delivered = run(True)
print("     send callbacks:", results)
print("     delivered     :", delivered)

ok = delivered == [b"state-0", b"state-1", b"state-2"]
if not ok:
    print("\nFAIL: an unauthenticated datagram made the keyed connection drop an "
          "authenticated message (reported as acked to the sender)")
    sys.exit(1)
print("all fine")
