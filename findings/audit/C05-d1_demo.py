"""
D1 (C05 / C07): a guaranteed fragmented message is never delivered - but its
callback reports True - after ONE lost datagram, when a second large message
is in flight.

run: PYTHONPATH=/tmp/aud/C /venv/bin/python d1_demo.py

Scenario (default MTU, default timeouts, real UdpClient <-> real
ServerClientConnection driven exactly like UdpServerThread.run does):

  client.send_guaranteed(A)   # 2048 bytes  -> 2 fragments
  client.send_guaranteed(B)   # 300 KiB     -> 300 fragments (5 s of datagrams)

  the network loses exactly one datagram: the first one carrying fragment 2 of A.
  Everything else, in both directions, is delivered immediately.

What happens:
  * A/1 arrives, is acked.  A/2 is lost, times out after 1 s and is queued again
    (FragmentSender.callback -> _send_type) *behind* the remaining fragments of B.
  * while the fragments of B keep arriving, ConnectionBase._recvAppFragment runs
    its "remove expired fragments" sweep and throws away the partially received
    A after 1.0 + 0.5*2 = 2 s of inactivity (FragmentReceiver.expired).
  * when the resent A/2 finally arrives a new, empty FragmentReceiver is created
    for it.  A/1 was acked long ago and is never sent again, so A can never be
    completed.  The datagram of A/2 is acked, so the sender runs callback(True).
"""
import logging
import sys
import time as _real_time
import types

logging.disable(logging.CRITICAL)

import mpgameserver.connection as C
import mpgameserver.client as CL
from mpgameserver.connection import Packet, PacketHeader, PacketType, \
    ConnectionStatus, ServerClientConnection, FragmentSender
from mpgameserver.context import ServerContext
from mpgameserver.handler import EventHandler
from mpgameserver.client import UdpClient


# --------------------------------------------------------------------------
# deterministic harness: fake clock (anchored at time.time()), mock socket
class FakeTime(object):
    def __init__(self):
        self.now = self.t0 = _real_time.time()
    def time(self):
        return self.now
    def sleep(self, d):
        self.now += d
    def __getattr__(self, name):
        return getattr(_real_time, name)

class Handler(EventHandler):
    def __init__(self):
        self.received = []
        self.client = None
    def connect(self, client):
        self.client = client
    def handle_message(self, client, seqnum, msg=b''):
        self.received.append(msg)

class MockSock(object):
    def __init__(self, sim):
        self.sim = sim
        self.inbox = []
    def sendto(self, datagram, addr):
        self.sim.net_send('c2s', datagram)
    def recvfrom(self, n):
        return self.inbox.pop(0), self.sim.saddr
    def close(self):
        pass

class Sim(object):
    def __init__(self, dt=0.017):
        self.ft = FakeTime()
        C.time = self.ft      # ConnectionBase.clock and FragmentReceiver.expired()
        CL.time = self.ft
        self.dt = dt
        self.saddr = ('127.0.0.1', 1474)
        self.caddr = ('127.0.0.1', 5555)
        self.handler = Handler()
        self.ctxt = ServerContext(self.handler)
        self.client = UdpClient()
        self.sock = MockSock(self)
        self.client._make_socket = lambda addr: self.sock
        CL.select = types.SimpleNamespace(
            select=lambda r, w, x, t: ([self.sock] if self.sock.inbox else [], [self.sock], []))
        self.inflight = []
        self.order = 0
        self.policy = lambda direction, datagram: [0.0]   # list of delays, [] = lost
        self.server_queue = []
        self.client_received = []

    @property
    def t(self):
        return self.ft.now - self.ft.t0

    def net_send(self, direction, datagram):
        for d in self.policy(direction, datagram):
            self.order += 1
            self.inflight.append((self.ft.now + d, self.order, direction, datagram))

    def deliver(self):
        due = sorted(x for x in self.inflight if x[0] <= self.ft.now)
        self.inflight = [x for x in self.inflight if x[0] > self.ft.now]
        for _, _, direction, datagram in due:
            if direction == 'c2s':
                hdr = PacketHeader.from_bytes(True, datagram)
                self.server_queue.append((self.caddr, hdr, datagram))
            else:
                self.sock.inbox.append(datagram)

    def server_tick(self):
        # the body of UdpServerThread.run for one tick
        ctxt = self.ctxt
        while self.server_queue:
            addr, hdr, datagram = self.server_queue.pop(0)
            if addr in ctxt.connections:
                client = ctxt.connections[addr]
                client._recv_datagram(hdr, datagram)
                for seqnum, msg in client.incoming_messages:
                    ctxt.handler.handle_message(client, seqnum, msg)
                client.incoming_messages = []
            elif addr in ctxt.temp_connections:
                if hdr.pkt_type != PacketType.CHALLENGE_RESP:
                    continue
                ctxt.temp_connections[addr]._recv_datagram(hdr, datagram)
            else:
                if hdr.pkt_type != PacketType.CLIENT_HELLO:
                    continue
                client = ServerClientConnection(ctxt, addr)
                client.send_keep_alive_interval = ctxt.keep_alive_interval
                client.outgoing_timeout = ctxt.outgoing_timeout
                ctxt.temp_connections[addr] = client
                client._recv_datagram(hdr, datagram)
        sending = []
        for client in list(ctxt.connections.values()) + list(ctxt.temp_connections.values()):
            msg = client.update()
            if msg is not None:
                sending.append(msg)
        for pkt, key, addr in sending:
            self.net_send('s2c', pkt.to_bytes(key))

    def step(self, n=1):
        for _ in range(n):
            self.ft.now += self.dt
            self.deliver()
            self.server_tick()
            self.client.update()
            self.client_received.extend(m for _, m in self.client.getMessages())

    def connect(self):
        self.client.connect(self.saddr, None)
        for i in range(30):
            self.step()
        assert self.client.connected() and self.handler.client is not None
        self.sconn = self.handler.client
        self.cconn = self.client.conn

# --------------------------------------------------------------------------

sim = Sim()
sim.connect()

A = bytes(range(256)) * 8          # 2048 bytes: 2 fragments
B = b"B" * (300 * 1024)            # 300 fragments
result_A = []
result_B = []
lost = []

def lose_one_datagram(direction, datagram):
    """ lose the first datagram which carries fragment 2 of message A """
    if direction == 'c2s' and not lost:
        hdr = PacketHeader.from_bytes(True, datagram)
        pkt = Packet.from_bytes(hdr, sim.cconn.session_key_bytes, datagram)
        for m in pkt.msgs:
            if m.type == PacketType.APP_FRAGMENT:
                frag_id, index, count, _ = FragmentSender.parsePayload(m.payload)
                if frag_id == 1 and index == 2:
                    lost.append(sim.t)
                    return []
    return [0.0]

sim.policy = lose_one_datagram

sim.client.send_guaranteed(A, result_A.append)
sim.client.send_guaranteed(B, result_B.append)

sim.step(60 * 30)      # 30 seconds, the network is perfect after the single loss

print("datagrams lost           : %d (at t=%.3f)" % (len(lost), lost[0]))
print("connection still open    :", sim.client.connected(), sim.sconn.status)
print("callback(A), callback(B) :", result_A, result_B)
print("B delivered              :", B in sim.handler.received)
print("A delivered              :", A in sim.handler.received)
print("server partial fragments :", {k: [f is not None for f in v.fragments] for k, v in sim.sconn.received_fragments.items()})
print("client still sending A?  : outgoing=%d pending_fragments=%d" % (len(sim.cconn.outgoing_messages), len(sim.cconn.pending_fragments)))

assert len(lost) == 1
assert sim.client.connected() and sim.sconn.status == ConnectionStatus.CONNECTED
assert B in sim.handler.received
# C07: success is only reported after the peer accepted the whole message
# C05: a guaranteed message is delivered once the network has healed
assert A in sim.handler.received, \
    "guaranteed message A was never delivered (callback reported %r)" % (result_A,)
print("OK")
