#!/venv/bin/python
"""
C07 - a send callback reports failure although the acknowledgement was received

A real UdpClient talks to real ServerClientConnection objects (the body of
UdpServerThread.run is mirrored by MiniServer.step) over an in-memory network
with a fake clock. The network is lossless, one way latency 60 ms. Default
settings (message timeout 1 s, keep alive interval 0.1 s).

  t=0      client.send(b"hello", retry=RetryMode.NONE, callback=cb); update()
           -> datagram D leaves the client
  t=0.06   the server receives D, the handler gets b"hello"; every datagram
           the server sends from now on acknowledges D
  t=0..1.2 the application does not call update() (frame hitch / update()
           called rarely). the socket collects the keep alives of the server:
           the first one or two were sent before D arrived and do not
           acknowledge D, all the others do
  t=1.2    update(): the burst is read in one call. while processing the
           FIRST datagram ConnectionBase._handle_ack_bits finds D
           unacknowledged by this datagram and older than the message
           timeout and reports cb(False) - although the next datagram of the
           same burst, received 1.1 s ago by the socket, acknowledges D.

expected: cb(True) exactly once (the peer accepted the message and the
          acknowledgement was delivered)
actual:   cb(False)

the same happens to an unretried fragmented message (second scenario), and
with UdpClient.setMessageTimeout(0.25) a frame hitch of 0.3 s is enough
(third scenario).

exit status 0 = behaves as the property says, 1 = violation
"""
import os, sys, heapq, itertools, logging
sys.path.insert(0, os.path.join(os.path.dirname(os.path.abspath(__file__)), ".."))
logging.disable(logging.CRITICAL)

import mpgameserver.connection as connection
import mpgameserver.client as client_mod
from mpgameserver.client import UdpClient
from mpgameserver.context import ServerContext
from mpgameserver.handler import EventHandler
from mpgameserver.connection import ServerClientConnection, PacketHeader, \
    PacketType, ConnectionStatus

# ---------------------------------------------------------------- fake time
class FakeTime(object):
    def __init__(self): self.now = 1000.0
    def time(self): return self.now
    def monotonic(self): return self.now
    def sleep(self, d): self.now += d
T = FakeTime()
connection.time = T     # ConnectionBase.clock = time.time, FragmentReceiver
client_mod.time = T     # waitForDisconnect sleep

# ------------------------------------------------------------- fake network
class Net(object):
    """ lossless network with a constant one way latency """
    def __init__(self, latency=0.0):
        self.latency = latency; self.q = []; self.n = itertools.count()
        self.endpoints = {}
    def send(self, src, dst, datagram):
        heapq.heappush(self.q, (T.now + self.latency, next(self.n), src, dst, datagram))
    def pump(self):
        while self.q and self.q[0][0] <= T.now:
            _, _, src, dst, datagram = heapq.heappop(self.q)
            self.endpoints[dst](src, datagram)

class FakeSocket(object):
    def __init__(self, net, addr):
        self.net = net; self.addr = addr; self.inbox = []
        net.endpoints[addr] = lambda src, dg: self.inbox.append((dg, src))
    def sendto(self, datagram, addr): self.net.send(self.addr, addr, datagram)
    def recvfrom(self, n): return self.inbox.pop(0)
    def close(self): pass

class FakeSelect(object):
    @staticmethod
    def select(r, w, x, timeout=None):
        return [s for s in r if s.inbox], list(w), []
client_mod.select = FakeSelect

# -------------------------------------------------- server (UdpServerThread)
class MiniServer(object):
    ADDR = ("10.0.0.1", 1474)
    def __init__(self, net, ctxt):
        self.net = net; self.ctxt = ctxt; self.queue = []
        net.endpoints[self.ADDR] = self.recv
    def recv(self, addr, datagram):             # _UdpServer.run
        try:
            hdr = PacketHeader.from_bytes(True, datagram)
        except Exception:
            return
        self.queue.append((addr, hdr, datagram))
    def step(self):                             # one pass of UdpServerThread.run
        ctxt = self.ctxt
        queue, self.queue = self.queue, []
        for addr, hdr, datagram in queue:
            if addr in ctxt.connections:
                c = ctxt.connections[addr]
                c._recv_datagram(hdr, datagram)
                for seqnum, msg in c.incoming_messages:
                    ctxt.handler.handle_message(c, seqnum, msg)
                c.incoming_messages = []
            elif addr in ctxt.temp_connections:
                if hdr.pkt_type == PacketType.CHALLENGE_RESP:
                    ctxt.temp_connections[addr]._recv_datagram(hdr, datagram)
            elif hdr.pkt_type == PacketType.CLIENT_HELLO:
                c = ServerClientConnection(ctxt, addr)
                c.send_keep_alive_interval = ctxt.keep_alive_interval
                c.outgoing_timeout = ctxt.outgoing_timeout
                ctxt.temp_connections[addr] = c
                c._recv_datagram(hdr, datagram)
        sending = []
        for c in list(ctxt.connections.values()):
            if c.status == ConnectionStatus.DISCONNECTING:
                c.disconnect()
            dead = c.status == ConnectionStatus.DISCONNECTED or c.timedout(ctxt.connection_timeout)
            if dead:
                ctxt.onDisconnect(c)
            msg = c.update()
            if msg is not None:
                sending.append(msg)
            if dead:
                del ctxt.connections[c.addr]
        for c in list(ctxt.temp_connections.values()):
            if c.status == ConnectionStatus.DISCONNECTED or c.timedout(ctxt.temp_connection_timeout):
                del ctxt.temp_connections[c.addr]
            else:
                msg = c.update()
                if msg is not None:
                    sending.append(msg)
        for pkt, key, addr in sending:
            self.net.send(self.ADDR, addr, pkt.to_bytes(key))

TICK = 1/60

def run(net, server, client, duration, client_runs=True):
    end = T.now + duration
    while T.now < end:
        net.pump(); server.step(); net.pump()
        if client_runs:
            client.update()
        T.now += TICK


from mpgameserver.connection import RetryMode

class Handler(EventHandler):
    def __init__(self):
        super().__init__()
        self.received = []
    def handle_message(self, client, seqnum, msg):
        self.received.append((T.now, msg))

def scenario(payload, label, msg_timeout=None, stall=1.2):
    T.now = 1000.0
    net = Net(latency=0.06)
    handler = Handler()
    ctxt = ServerContext(handler)
    server = MiniServer(net, ctxt)

    client = UdpClient()
    client._make_socket = lambda addr: FakeSocket(net, ("10.0.0.2", 40000))
    client.connect(MiniServer.ADDR)
    run(net, server, client, 1.0)
    assert client.connected() and len(ctxt.connections) == 1, "handshake failed"

    if msg_timeout is not None:
        client.setMessageTimeout(msg_timeout)

    results = []
    t_send = T.now
    client.send(payload, retry=RetryMode.NONE,
        callback=lambda ok: results.append((round(T.now - t_send, 3), ok)))
    first = int(client.conn.seq_sending) + 1
    # run until all datagrams of the message have left (one per update)
    while client.conn.outgoing_messages:
        net.pump(); server.step(); net.pump(); client.update(); T.now += TICK
    last = int(client.conn.seq_sending)
    seqs = set(range(first, last + 1))

    # the application stalls; network and server keep running
    run(net, server, client, stall, client_runs=False)

    # what is waiting in the socket?
    acked_by = {}
    for i, (dg, _) in enumerate(client.sock.inbox):
        hdr = PacketHeader.from_bytes(False, dg)
        for s in seqs:
            d = int(hdr.ack) - s
            if d == 0 or (1 <= d <= 32 and hdr.ack_bits & (0x80000000 >> (d - 1))):
                acked_by.setdefault(s, i)
    waiting = len(client.sock.inbox)
    recv = [(round(t - t_send, 3), len(m)) for t, m in handler.received]

    run(net, server, client, 3.0)       # the application is back

    print("--- %s (%d bytes, datagrams %s, message timeout %.2f s, stall %.2f s)" % (
        label, len(payload), sorted(seqs), client.conn.outgoing_timeout, stall))
    print("server handler received (dt, size): %s" % recv)
    print("datagrams waiting in the client socket after the stall: %d; "
          "first one that acknowledges each client datagram: %s" % (waiting, acked_by))
    print("callback results (dt, success): %s" % results)
    print("connection still open: %s" % (client.connected() and len(ctxt.connections) == 1))
    ok = [r[1] for r in results] == [True]
    delivered = len(recv) == 1 and recv[0][1] == len(payload)
    all_acked = set(acked_by) == seqs
    if not ok and delivered and all_acked:
        print("FAIL: the peer accepted the whole message, every datagram was "
              "acknowledged, the acknowledgements were in the socket before "
              "update() ran - and the callback reported %s" % [r[1] for r in results])
    return ok

def main():
    ok1 = scenario(b"hello", "single datagram, RetryMode.NONE")
    ok2 = scenario(b"x" * 3000, "fragmented, RetryMode.NONE")
    # a 0.3 s frame hitch is enough when the message timeout is 0.25 s
    # (round trip time is 0.12 s, well below the message timeout)
    ok3 = scenario(b"hello", "single datagram, RetryMode.NONE, setMessageTimeout(.25)",
        msg_timeout=0.25, stall=0.3)
    if ok1 and ok2 and ok3:
        print("OK")
        return 0
    return 1

if __name__ == '__main__':
    sys.exit(main())
