"""C05 - guaranteed sends are eventually delivered, for every size, from both APIs."""
import random
import collections
from checks.common import UdpCheck, gen_traffic, limits, ConnectionStatus, client_addr, FragExpiryProbe, QueueConservation


def lenclass(mtu, n):
    L = limits(mtu)
    cap1, frag = L["cap1"], L["frag"]
    if n <= cap1:
        if n == 0:
            return "empty"
        return "cap1-%d" % (cap1 - n) if cap1 - n < 8 else "single"
    # reference splitter: slices of `frag`, the last slice may grow up to cap1-6-1
    rest, k = n, 0
    while rest > 0:
        if rest < cap1 - 6:
            last, rest = rest, 0
        else:
            last, rest = frag, rest - frag
        k += 1
    tag = "frag%s" % (k if k < 4 else "4+")
    if last > frag:
        tag += ":last=cap1-6-%d" % (cap1 - 6 - last) if cap1 - 6 - last < 8 else ":last>frag"
    return tag


def open_pairs(w):
    """(client node, client conn, server conn) for connections open at both ends at the end of the run."""
    out = []
    for cn in w.clients:
        c = cn.client
        if c is None or c.conn is None or cn.inc != 1:
            continue
        sc = w.ctxt.connections.get(cn.addr)
        if sc is None:
            continue
        if c.conn.status.value != ConnectionStatus.CONNECTED.value or sc.status.value != ConnectionStatus.CONNECTED.value:
            continue
        out.append((cn, c.conn, sc))
    return out


def is_guaranteed(rec):
    return rec["api"] in ("send_guaranteed", "send_default") or rec["retry"] == -1


class C05(UdpCheck):
    pid = "C05"
    budget = {"quick": 70, "thorough": 900}
    ncases = {"quick": 500, "thorough": 40000}
    rule = ("case = swarm config (MTU, entry point, tick rates, latency/jitter, clock offsets) + plan of guaranteed sends "
            "(client send(retry=-1)/send_guaranteed/default send, server send(RETRY_ON_TIMEOUT)/send_guaranteed) with lengths "
            "stratified over every boundary (0, single-datagram capacity, multiples of the fragment size, enlarged last "
            "fragment) inside a loss/dup/delay/partition phase followed by a healed network; non-trivial = at least one "
            "fault fired and at least one message was delivered; distinct = distinct event-order digest")

    def gen(self, rng, tier, i):
        if i % 25 == 3:
            return self.gen_stream(rng, tier, i)
        if i % 25 == 11:
            return self.gen_bulk(rng, tier, i)
        case = gen_traffic(rng, i, tier, retries=(-1,), cb_p=0.3)
        if rng.random() < 0.3:
            # other traffic: small unretried / best-effort messages queued in the same frame, right before a guaranteed one (they
            # share its datagram), whose application callback misbehaves (raises): that is the application's problem, never
            # a reason to lose the guaranteed message next to it
            plan = []
            for op in case["plan"]:
                if op["op"] in ("send", "ssend") and rng.random() < 0.5:
                    plan.append({"op": op["op"], "c": op["c"], "t": op["t"], "len": rng.choice([1, 8, 30]), "kind": 0,
                                 "retry": rng.choice([0, 0, 1]), "cb": True, "cb_raises": rng.choice(["on_false", "always", "on_true"]),
                                 "api": "send"})
                plan.append(op)
            case["plan"] = plan
        rng2 = random.Random("c05-extra|%s" % (rng.getstate()[1][:3],))       # (does not consume from the main stream)
        if rng2.random() < 0.3:
            # a transient failure of the client's sendto right when (or shortly after) a guaranteed message starts to
            # travel: one datagram - maybe the first transmission of a fragment - never leaves; the message still arrives
            cs = [op for op in case["plan"] if op["op"] == "send"]
            for op in rng2.sample(cs, min(len(cs), rng2.choice([1, 2, 3]))):
                case["plan"].append({"op": "csockerr", "c": op["c"], "t": round(op["t"] + rng2.choice([0.0, 0.0, 0.02, 0.05]), 4)})
            case["cfg"]["client_sendto_errors"] = True
        if rng.random() < 0.2:
            case["plan"].append({"op": "hgreet", "t": 0.0, "len": rng.choice([5, 300, 2500]), "retry": -1, "cb": False,
                                 "api": rng.choice(["send", "send_guaranteed"]), "kind": 0})
        return case

    def gen_bulk(self, rng, tier, i):
        """Interleaving with other traffic: a guaranteed message whose first transmissions are lost while several hundred
        small messages of the same sender get through, so that its retransmission arrives more than a message window (256)
        behind the newest message the receiver has seen. It has never been received: it must still be delivered."""
        case = gen_traffic(rng, i, tier, nclients=1, n_msgs=2, long_latency=False, fault=False, entry=rng.choice(["bare", "twisted", "udpserver"]))
        cfg = case["cfg"]
        who = rng.choice(["send", "ssend"])
        plan = [op for op in case["plan"] if op["op"] == "connect"]
        for op in plan:
            op.pop("on_connect", None)
        period = max(cfg["clients"][0]["dt"] if who == "send" else cfg["server"]["interval"], 1 / 60)
        t0 = 1.5
        for k in range(rng.choice([1, 3])):
            plan.append({"op": who, "c": 0, "t": round(t0 + k * 0.004, 4), "len": rng.choice([0, 20, 700, 3000]), "kind": 2, "retry": -1,
                         "cb": rng.random() < 0.5, "api": "send"})
        nb = rng.choice([300, 520, 800])
        frames = rng.choice([1, 3])
        for j in range(nb):
            plan.append({"op": who, "c": 0, "t": round(t0 + period * (1 + j * frames // nb), 4), "len": rng.choice([0, 1, 4, 8]), "kind": 0,
                         "retry": rng.choice([0, 0, 0, 1]), "cb": False, "api": "send"})
        d = {"dst": "S"} if who == "send" else {"src": "S"}
        cfg["phases"] = [dict(d, t0=t0 - 0.02, t1=t0 + rng.choice([0.15, 0.4, 0.8]), loss=rng.choice([0.4, 0.6, 0.8]))]
        cfg["t_heal"] = t0 + 1.0
        cfg["duration"] = t0 + 9.0
        case["plan"] = plan
        return case

    def gen_stream(self, rng, tier, i):
        """Interleaving with other traffic: one side sends a small guaranteed message EVERY frame for several seconds
        (tiny load), the round trip is longer than the 0.1 s resend interval, and in the middle one guaranteed message
        close to the datagram capacity is sent. It must not wait until the stream ends."""
        case = gen_traffic(rng, i, tier, nclients=1, n_msgs=2, long_latency=False, fault=False, entry=rng.choice(["bare", "twisted", "udpserver"]))
        cfg = case["cfg"]
        cfg["clients"][0]["dt"] = 1 / 59
        cfg["server"]["interval"] = 1 / 59
        cfg["latency"], cfg["jitter"] = rng.choice([0.03, 0.06, 0.15]), 0.0
        cap1 = limits(cfg["mtu"])["cap1"]
        who = rng.choice(["send", "ssend"])
        plan = [op for op in case["plan"] if op["op"] == "connect"]
        for op in plan:
            op.pop("on_connect", None)
        t0, dur = 1.5, 9.0
        nframes = int(dur * 59)
        for j in range(nframes):
            plan.append({"op": who, "c": 0, "t": round(t0 + j / 59.0, 5), "len": rng.choice([8, 15, 15, 40]), "kind": 0, "retry": -1,
                         "cb": False, "api": "send"})
        big = cap1 - rng.choice([0, 1, 2, 5, 10, 40, 200])
        plan.append({"op": who, "c": 0, "t": round(t0 + 2.0, 5), "len": big, "kind": 3, "retry": -1, "cb": False, "api": "send", "big": True})
        cfg["phases"] = []
        cfg["t_heal"] = t0
        cfg["duration"] = t0 + dur + 6.0
        cfg["stream_until"] = t0 + dur
        case["plan"] = plan
        return case

    def monitors(self, case):
        self.fx = FragExpiryProbe()
        self.qc = QueueConservation()
        return [self.fx, self.qc]

    def judge(self, w, case):
        vs = []
        mtu = case["cfg"]["mtu"]
        for rec in w.sends:
            if rec["ok"] is False and rec["len"] <= 8 * 1024 * 1024:
                side = "server" if rec["who"] == "S" else "client"
                vs.append({"kind": "send_api_raised", "key": "%s:%s:%s" % (side, rec["api"], rec.get("exc")),
                           "detail": {k: rec[k] for k in ("who", "api", "len", "retry", "t", "exc")}})
        cfg_ = case["cfg"]
        if cfg_.get("stream_until"):
            # the large message must arrive well before the stream of small ones ends (bounded waiting, not starvation)
            big = next((r for r in w.sends if r["len"] > 100 and r["ok"]), None)
            if big is not None:
                arr = [d[0] for d in w.delivs if d[3] == big["sig"]]
                bound = 3.0 * (cfg_.get("msg_timeout", 1.0) + 2 * cfg_["latency"] + 0.2)
                if not arr or arr[0] - big["t"] > bound:
                    vs.append({"kind": "guaranteed_message_starved_by_other_traffic", "key": "%s:cap1-%d" % ("server" if big["who"] == "S" else "client", limits(mtu)["cap1"] - big["len"]) if limits(mtu)["cap1"] - big["len"] < 50 else "%s:below-capacity" % ("server" if big["who"] == "S" else "client"),
                               "detail": {"len": big["len"], "mtu": mtu, "sent": round(big["t"], 3), "delivered": round(arr[0], 3) if arr else None,
                                          "stream_until": cfg_["stream_until"], "bound_s": round(bound, 2), "latency": cfg_["latency"]}})
        vs += self.qc.judge(w, 3 * max(cfg_["server"]["interval"], 1 / 60) + cfg_["reactor_lag"] + cfg_.get("wake_lag", 0) + 0.02)
        pairs = open_pairs(w)
        if not pairs:
            w.vacuous = True
        dl = collections.Counter()
        for t, receiver, cname, s, msgseq, head in w.delivs:
            dl[(receiver, s)] += 1
        for cn, cconn, sconn in pairs:
            need = collections.Counter()
            first = {}
            for rec in w.sends:
                # (a send issued from inside handler.connect counts even if the library silently ignored it: the client
                # has completed the handshake at that point, so the guaranteed send must be accepted and delivered)
                if not is_guaranteed(rec) or rec["ok"] is not True or (rec["status"] != "CONNECTED" and not rec.get("from_connect_handler")):
                    continue
                if rec["who"] == cn.name:
                    key = ("S", rec["sig"])
                elif rec["who"] == "S" and rec["peer"] == cn.name:
                    key = (cn.name, rec["sig"])
                else:
                    continue
                need[key] += 1
                first.setdefault(key, rec)
            for key, n in need.items():
                if dl[key] < n:
                    rec = first[key]
                    side = "server" if rec["who"] == "S" else "client"
                    rx = w.conn_name(sconn if rec["who"] != "S" else cconn)
                    cause, purged = self.fx.cause(w, rec, rx)
                    vs.append({"kind": "guaranteed_not_delivered", "key": "%s:%s:%s" % (side, lenclass(mtu, rec["len"]), cause),
                               "detail": {"who": rec["who"], "api": rec["api"], "len": rec["len"], "t_sent": rec["t"],
                                          "delivered": dl[key], "sent": n, "mtu": mtu, "end": w.k.now,
                                          "purged": purged}})
        return vs


CHECK = C05()
