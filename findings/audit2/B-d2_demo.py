"""
C04 (at-most-once) on a FAULT-FREE network: no loss, no duplication, no
reordering, constant 150 ms round trip (75 ms each way).

The packet builder packs first-fit: small messages queued later overtake
bigger messages that are still waiting in the send queue.  Message sequence
numbers are assigned in send() order, so the receiver's 256-message duplicate
window (bitfield_msg) is dragged ahead by the small messages; the big
messages then arrive more than 256 sequence numbers *behind the window head
on their first transmission*.  BitField.insert() silently accepts such a
message without recording it, so the routine resend of a BEST_EFFORT /
RETRY_ON_TIMEOUT message 100 ms later (sent because the ack needs 150 ms) is
accepted again and the application receives the message twice.
"""
import struct, time, collections
import mpgameserver.connection as C
from mpgameserver.connection import (ConnectionBase, ConnectionStatus, Packet,
    PacketHeader, RetryMode)

NOW = [time.time()]
class _FakeTime:
    time = staticmethod(lambda: NOW[0])
C.time = _FakeTime

Packet.setMTU(1500)
KEY = b"k" * 16
ONE_WAY = 0.075

def make(isServer):
    c = ConnectionBase(isServer, ("127.0.0.1", 1000 + isServer))
    c.clock = lambda: NOW[0]
    c.session_key_bytes = KEY
    c.status = ConnectionStatus.CONNECTED
    return c

client = make(False)
server = make(True)
wire = collections.deque()     # (arrival time, destination, datagram): FIFO, constant delay

def tick_send(src, dst):
    pkt = src._build_packet()
    if pkt is not None:
        datagram = src._encode_packet(pkt)
        assert len(datagram) <= Packet.MTU - 28
        wire.append((NOW[0] + ONE_WAY, dst, datagram))
    src._check_timeout(NOW[0])

def deliver_due():
    while wire and wire[0][0] <= NOW[0]:
        _, dst, datagram = wire.popleft()
        hdr = PacketHeader.from_bytes(dst.isServer, datagram)
        dst._recv_datagram(hdr, datagram)

delivered = {}
def drain_app():
    for seq, msg in server.incoming_messages:
        kind, ident = struct.unpack(">cL", msg[:5])
        key = (kind, ident)
        delivered[key] = delivered.get(key, 0) + 1
    server.incoming_messages = []

# t = 0: the application queues an asset as 300 chunks of 600 bytes.
CHUNKS = 300
for ident in range(CHUNKS):
    client.send(struct.pack(">cL", b"C", ident) + b"x" * 595, retry=RetryMode.BEST_EFFORT)

# every frame it also sends two tiny unreliable state updates
state_id = 0
for tick in range(60 * 12):
    NOW[0] += 1 / 60 + 1e-3
    deliver_due()
    drain_app()
    for _ in range(2):
        client.send(struct.pack(">cL", b"S", state_id) + b"pos", retry=RetryMode.NONE)
        state_id += 1
    tick_send(client, server)
    tick_send(server, client)

assert client.stats.timeouts == 0 and server.stats.dropped == 0, "network was fault free"
chunks = {k: n for k, n in delivered.items() if k[0] == b"C"}
twice = sorted(k[1] for k, n in chunks.items() if n > 1)
print("chunks sent %d, distinct chunks delivered %d, delivered more than once: %d (first few: %s)"
      % (CHUNKS, len(chunks), len(twice), twice[:8]))
assert len(chunks) == CHUNKS
assert not twice, "at-most-once violated on a fault-free network: %d of %d chunks were delivered twice" % (len(twice), CHUNKS)
print("OK")
