"""
C12 - the client does not report DROPPED 5 s after the server went silent: it
first works through the backlog of its socket, one datagram per update().

UdpClient.update() reads at most ONE datagram per call, and
ClientServerConnection._recv_datagram stamps last_recv_time with the time the
datagram is *processed*, not the time it arrived. Whenever the server emits
datagrams faster than the application calls update() (here: default server
keep alive of 0.1 s = 10 datagrams/s, client game loop at 5 updates/s, a
completely idle link) the unread datagrams pile up in the socket. When the
server then dies, every further update() takes one stale datagram out of the
socket and restarts the 5 s silence timer: the dead peer is only detected
5 s after the backlog is drained (here after more than a minute).

Everything uses the real UdpClient / ServerClientConnection with an injected
clock. The UDP socket is replaced by an in-memory queue (like the mock sockets
of the test-suite), select.select is pointed at that queue.

run: PYTHONPATH=/tmp/aud/E /venv/bin/python d4_demo.py
"""
import time
import logging

import mpgameserver.client as client_module
from mpgameserver.client import UdpClient
from mpgameserver.context import ServerContext
from mpgameserver.handler import EventHandler
from mpgameserver.connection import ServerClientConnection, PacketHeader, \
    PacketType, ConnectionStatus

logging.disable(logging.CRITICAL)

now = [time.time()]
clock = lambda: now[0]
START = now[0]

# ---------------------------------------------------------------------------
# in-memory network
class FakeSocket(object):
    def __init__(self):
        self.rx = []     # datagrams waiting to be read by the client
        self.tx = []     # datagrams written by the client
    def recvfrom(self, size):
        return self.rx.pop(0), ("server", 1)
    def sendto(self, datagram, addr):
        self.tx.append(datagram)
    def close(self):
        pass

class FakeSelect(object):
    @staticmethod
    def select(r, w, x, timeout=None):
        return [s for s in r if s.rx], list(w), []

client_module.select = FakeSelect

class Client(UdpClient):
    def _make_socket(self, addr):
        return FakeSocket()

# ---------------------------------------------------------------------------
# the server side of the link: ServerContext + ServerClientConnection, ticked
# exactly like UdpServerThread.run does it (recv, then update/timeout)
events = []
class Handler(EventHandler):
    def connect(self, client):
        events.append(("connect", now[0] - START))
    def disconnect(self, client):
        events.append(("disconnect", now[0] - START))

ctxt = ServerContext(Handler())          # defaults: keep alive .1 s, timeout 5 s
CADDR = ("192.0.2.1", 5000)

def server_tick(datagrams):
    out = []
    for datagram in datagrams:
        hdr = PacketHeader.from_bytes(True, datagram)
        if CADDR in ctxt.connections:
            ctxt.connections[CADDR]._recv_datagram(hdr, datagram)
        elif CADDR in ctxt.temp_connections:
            if hdr.pkt_type == PacketType.CHALLENGE_RESP:
                ctxt.temp_connections[CADDR]._recv_datagram(hdr, datagram)
        elif hdr.pkt_type == PacketType.CLIENT_HELLO:
            conn = ServerClientConnection(ctxt, CADDR)
            conn.clock = clock
            conn.send_keep_alive_interval = ctxt.keep_alive_interval
            conn.outgoing_timeout = ctxt.outgoing_timeout
            ctxt.temp_connections[CADDR] = conn
            conn._recv_datagram(hdr, datagram)
    for conn in list(ctxt.connections.values()):
        if conn.status == ConnectionStatus.DISCONNECTED or conn.timedout(ctxt.connection_timeout):
            ctxt.onDisconnect(conn)
            del ctxt.connections[conn.addr]
        else:
            msg = conn.update()
            if msg:
                out.append(msg[0].to_bytes(msg[1]))
    for conn in list(ctxt.temp_connections.values()):
        msg = conn.update()
        if msg:
            out.append(msg[0].to_bytes(msg[1]))
    return out

# ---------------------------------------------------------------------------
SERVER_TICK = 1 / 60
CLIENT_EVERY = 12             # the client application runs at 5 updates per second

client = Client()
client.connect(("server", 1))
client.conn.clock = clock
client.conn.time_client_hello_sent = clock()

link_up = True
tick = 0
def step():
    global tick
    tick += 1
    now[0] += SERVER_TICK
    if tick % CLIENT_EVERY == 0:
        client.update()
    sent, client.sock.tx[:] = list(client.sock.tx), []
    if link_up:
        client.sock.rx.extend(server_tick(sent))
    # when the link is cut nothing is delivered in either direction and the
    # server is gone. what is already in the client socket stays there.

# connect and stay idle for one minute over a perfectly working network
IDLE = 60.0
while now[0] - START < IDLE:
    step()
    if now[0] - START > 1.0:
        assert client.status() == ConnectionStatus.CONNECTED, client.status()
        assert CADDR in ctxt.connections
assert events and events[0][0] == "connect" and len(events) == 1

backlog = len(client.sock.rx)
print("idle for %.0f s, both sides connected, unread datagrams in the client socket: %d" % (IDLE, backlog))

# the server dies / the link is cut
link_up = False
CUT = now[0]
dropped_at = None
while now[0] - CUT < 120.0:
    step()
    if client.status() == ConnectionStatus.DROPPED:
        dropped_at = now[0] - CUT
        break

print("client reported DROPPED %s after the server went silent" % (
    "%.1f s" % dropped_at if dropped_at is not None else "never (within 120 s)"))

# 5 s, plus one application frame, plus the age of the newest datagram
assert dropped_at is not None and dropped_at <= 5.0 + CLIENT_EVERY * SERVER_TICK + 0.5, \
    "peer went silent but the client reported DROPPED after %s s instead of 5 s (%d stale datagrams were read one per update)" % (
        "%.1f" % dropped_at if dropped_at is not None else ">120", backlog)
print("ok")
