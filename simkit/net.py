"""Simulated datagram network: links, fates, partitions, sockets, wire log.

Fate of a datagram = list of deliveries [(delay, mutation)], empty list = drop.
`mutation` is None, ("flip", bit) or ("trunc", n).  The *default* fate of a datagram
is one delivery after the link's hash-jittered latency; everything else is a fault
and is recorded in `Decider.table` so that the run can be replayed from the table
alone and minimised entry by entry.
"""
import hashlib
import struct
import errno


def khash(*parts):
    """Keyed hash -> 4 floats in [0,1). Stable across processes and hash seeds."""
    h = hashlib.blake2b(("|".join(map(str, parts))).encode(), digest_size=32).digest()
    a, b, c, d = struct.unpack(">QQQQ", h)
    s = 1.0 / 18446744073709551616.0
    return a * s, b * s, c * s, d * s


class TaggedBytes(bytes):
    """Datagram as seen by a receiver; carries simulator-side provenance only."""
    origin = "net"       # "net" | "attacker"
    wire_id = None       # index in the wire log of the datagram it derives from
    meta = None


class Phase:
    """Fault rates on a directed link (or '*') during [t0, t1)."""

    def __init__(self, t0, t1, src="*", dst="*", loss=0.0, dup=0.0, delay=0.0, delay_p=0.0,
                 flip=0.0, trunc=0.0, dup_delay=0.0, cut=False, hold=False):
        self.t0, self.t1, self.src, self.dst = t0, t1, src, dst
        self.loss, self.dup, self.delay, self.delay_p = loss, dup, delay, delay_p
        self.flip, self.trunc, self.dup_delay, self.cut = flip, trunc, dup_delay, cut
        self.hold = hold            # nothing is lost: everything sent during the phase is released, in order, when it ends

    def matches(self, now, src, dst):
        return (self.t0 <= now < self.t1 and self.src in ("*", src) and self.dst in ("*", dst))

    def to_json(self):
        return dict(self.__dict__)


class Decider:
    """Decides every datagram's fate.

    mode "hash":  fate = f(seed, link, ordinal, active phases)  (search)
    mode "table": fate = table.get(link|ordinal, default)          (replay / shrink)
    In both modes the base latency jitter is a pure keyed hash of (seed, link, ordinal).
    """

    def __init__(self, seed, latency, jitter, phases=(), table=None, mode="hash", latency_of=None):
        self.seed = seed
        self.latency = latency
        self.jitter = jitter
        self.phases = list(phases)
        self.mode = mode
        self.table = dict(table) if table else {}
        self.taken = {}            # non-default fates actually taken this run
        self.counts = {}
        self.latency_of = latency_of or {}

    def base_delay(self, link, ordinal):
        u = khash(self.seed, "lat", link, ordinal)[0]
        lat = self.latency_of.get(link, self.latency)
        return lat + self.jitter * u

    def _count(self, kind):
        self.counts[kind] = self.counts.get(kind, 0) + 1

    def fate(self, now, src, dst, ordinal, size):
        link = "%s>%s" % (src, dst)
        key = "%s|%d" % (link, ordinal)
        base = self.base_delay(link, ordinal)
        if self.mode == "table":
            f = self.table.get(key)
            if f is None:
                return [(base, None)]
            f = [(d, tuple(m) if m else None) for d, m in f]
            self.taken[key] = f
            self._count_fate(f, base)
            return f
        f = None
        for ph in self.phases:
            if not ph.matches(now, src, dst):
                continue
            if ph.cut:
                f = []
                self._count("partition_drop")
                break
            if ph.hold:
                f = [(base + (ph.t1 - now), None)]
                self._count("held_then_released_in_a_burst")
                break
            u = khash(self.seed, "fate", link, ordinal, ph.t0)
            if u[0] < ph.loss:
                f = []
                self._count("drop")
                break
            dels = [(base, None)]
            v = khash(self.seed, "fate2", link, ordinal, ph.t0)
            if u[1] < ph.delay_p:
                dels = [(base + ph.delay * (0.25 + 0.75 * v[0]), None)]
                self._count("delay")
            if u[2] < ph.dup:
                dels.append((base + (ph.dup_delay * v[1] if ph.dup_delay else 0.0005 + 0.05 * v[1]), None))
                self._count("dup")
            if u[3] < ph.flip and size > 0:
                dels = [(d, ("flip", int(v[2] * size * 8))) for d, _ in dels[:1]] + dels[1:]
                self._count("flip")
            elif v[3] < ph.trunc and size > 1:
                dels = [(dels[0][0], ("trunc", int(v[2] * size)))] + dels[1:]
                self._count("trunc")
            if dels != [(base, None)]:
                f = dels
                break
        if f is None:
            return [(base, None)]
        self.taken[key] = f
        return f

    def _count_fate(self, f, base):
        if not f:
            self._count("drop")
            return
        if len(f) > 1:
            self._count("dup")
        for d, m in f:
            if m:
                self._count(m[0])
        if f[0][0] > base + 1e-12 and not f[0][1]:
            self._count("delay")


def mutate(data, m):
    if m is None:
        return data
    if m[0] == "flip":
        bit = m[1] % (len(data) * 8) if data else 0
        b = bytearray(data)
        if b:
            b[bit // 8] ^= 1 << (bit % 8)
        return bytes(b)
    if m[0] == "trunc":
        return data[: m[1] % len(data)] if data else data
    return data


class Network:
    def __init__(self, kernel, decider):
        self.k = kernel
        self.decider = decider
        self.endpoints = {}      # addr -> (node, deliver_fn(data: TaggedBytes, src_addr))
        self.ordinals = {}
        self.taps = []           # fn(wire_id, t, src, dst, data, fate)
        self.rx_taps = []        # fn(t, src, dst, nbytes, origin) at delivery to an endpoint
        self.interceptors = []   # fn(src, dst, sname, dname, ordinal, data) -> None | [(data, extra_delay, meta)]
        self.nwire = 0
        self.delivered = 0
        self.names = {}          # addr -> short endpoint name used in link keys
        self.bytes_in = {}       # per (src,dst) counters, used by C11
        self.bytes_out = {}

    def bind(self, addr, name, node, deliver):
        self.endpoints[addr] = (node, deliver)
        self.names[addr] = name

    def unbind(self, addr):
        self.endpoints.pop(addr, None)

    def name(self, addr):
        return self.names.get(addr) or "%s:%s" % (addr[0], addr[1])

    def send(self, src, dst, data):
        if dst[1] == 0:
            raise OSError(errno.EINVAL, "Invalid argument")
        s, d = self.name(src), self.name(dst)
        lk = (s, d)
        o = self.ordinals.get(lk, 0)
        self.ordinals[lk] = o + 1
        for ic in self.interceptors:
            # an on-path attacker: may swallow the datagram and put anything else on the wire instead
            r = ic(src, dst, s, d, o, data)
            if r is not None:
                self.k.rec("intercepted", s, d, o, len(r))
                for tap in self.taps:
                    tap(self.nwire, self.k.now, src, dst, data, [])
                self.nwire += 1
                for d2, delay2, meta in r:
                    self.k.after(self.decider.base_delay("%s>%s" % (s, d), o) + delay2, None, self._deliver, src, dst, d2,
                                 None, None, "attacker", meta, tag="rx:" + d)
                return
        fate = self.decider.fate(self.k.now, s, d, o, len(data))
        wid = self.nwire
        self.nwire += 1
        for tap in self.taps:
            tap(wid, self.k.now, src, dst, data, fate)
        self.k.rec("tx", s, d, len(data), len(fate))
        for delay, mut in fate:
            self.k.after(delay, None, self._deliver, src, dst, data, mut, wid, "net", tag="rx:" + d)

    def inject(self, claimed_src, dst, data, delay=0.0, meta=None):
        """Attacker: put bytes on the wire towards dst, claiming any source."""
        self.k.after(delay, None, self._deliver, claimed_src, dst, data, None, None, "attacker", meta,
                     tag="rx:" + self.name(dst))

    def _deliver(self, src, dst, data, mut, wid, origin, meta=None):
        ep = self.endpoints.get(dst)
        if ep is None:
            self.k.rec("rx_noendpoint", self.name(dst), len(data))
            return
        for tap in self.rx_taps:
            tap(self.k.now, src, dst, len(data), origin)
        tb = TaggedBytes(mutate(data, mut))
        tb.origin = origin if mut is None else "net-mutated"
        tb.wire_id = wid
        tb.meta = meta
        node, fn = ep
        prev = self.k.cur_node
        self.k.cur_node = node
        try:
            self.delivered += 1
            self.k.rec("rx", self.name(src), self.name(dst), len(tb), tb.origin)
            fn(tb, src)
        finally:
            self.k.cur_node = prev


class SimSocket:
    """Non-blocking (client) or blocking (server receive thread) UDP socket."""

    def __init__(self, net, addr, name, node, blocking=False, recv_hook=None):
        self.net = net
        self.k = net.k
        self.addr = addr
        self.name = name
        self.node = node
        self.blocking = blocking
        self.queue = []
        self.closed = False
        self.reader = None           # baton thread parked in recvfrom
        self.sent = 0
        self.recv_hook = recv_hook
        self.fail_next_send = None   # errno to raise once
        self.send_hook = None        # fn(addr): may raise OSError (injected syscall failure)
        self.unwritable = None       # fn() -> True when select() shall report the socket as not writable this time
        self.msgsize_error = None    # fn(len, bufsize): when set, recvfrom of an oversized datagram raises EMSGSIZE (Windows)
        net.bind(addr, name, node, self._on_datagram)

    # -- network side
    def _on_datagram(self, data, src):
        if self.closed:
            return
        self.queue.append((data, src))
        if self.reader is not None:
            t, self.reader = self.reader, None
            self.k.wake(t)

    # -- socket API used by the repo
    def sendto(self, datagram, addr):
        if self.closed:
            raise OSError(errno.EBADF, "Bad file descriptor")
        if self.fail_next_send is not None:
            e, self.fail_next_send = self.fail_next_send, None
            raise OSError(e, "injected")
        if self.send_hook is not None:
            self.send_hook(addr)
        self.sent += 1
        self.net.send(self.addr, tuple(addr[:2]), bytes(datagram))
        return len(datagram)

    def recvfrom(self, n):
        if self.closed:
            raise OSError(errno.EBADF, "Bad file descriptor")
        while not self.queue:
            if not self.blocking:
                raise BlockingIOError(errno.EAGAIN, "Resource temporarily unavailable")
            self.reader = self.k.cur_thread
            self.k.park()
            if self.closed:
                raise OSError(errno.EBADF, "Bad file descriptor")
        data, src = self.queue.pop(0)
        if isinstance(data, BaseException):
            raise data              # an error event queued by inject_recv_error (e.g. ECONNRESET after an ICMP unreachable)
        if len(data) > n and getattr(self, "msgsize_error", None) is not None:
            # Windows semantics: a datagram larger than the buffer is cut off AND reported as an error
            # (WSAEMSGSIZE, 10040); POSIX silently truncates
            self.msgsize_error(len(data), n)
            raise OSError(errno.EMSGSIZE, "[WinError 10040] A message sent on a datagram socket was larger than the internal message buffer")
        if len(data) > n:
            t = type(data)(data[:n])
            if isinstance(data, TaggedBytes):
                t.origin, t.wire_id, t.meta = data.origin, data.wire_id, data.meta
            data = t
        if self.recv_hook:
            self.recv_hook(data, src)
        return data, src

    def readable(self):
        return bool(self.queue)

    def inject_recv_error(self, exc):
        """The next recvfrom() that would have waited or read here raises `exc` instead (it consumes no datagram)."""
        if self.closed:
            return
        self.queue.append((exc, None))
        if self.reader is not None:
            t, self.reader = self.reader, None
            self.k.wake(t)

    def setsockopt(self, *a):
        pass

    def setblocking(self, flag):
        self.blocking = bool(flag)

    def bind(self, addr):
        pass

    def fileno(self):
        return 1000

    def close(self):
        self.closed = True
        self.net.unbind(self.addr)
        if self.reader is not None:
            t, self.reader = self.reader, None
            self.k.wake(t)


class SelectShim:
    """Replacement for the `select` module inside mpgameserver.client."""

    def __init__(self, real):
        self._real = real

    def __getattr__(self, name):
        return getattr(self._real, name)

    @staticmethod
    def select(r, w, x, timeout=None):
        return [s for s in r if s.readable()], [s for s in w if not (s.unwritable is not None and s.unwritable())], []
