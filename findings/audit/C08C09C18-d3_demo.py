"""
C18: the Close frame the library builds (WebSocketFrame.Close(), used by
WebSocketTemporaryHandler.close() both for a server initiated close and for
the echo of a client Close) carries status code 200.  RFC 6455 5.5.1 requires
the first two payload bytes of a Close frame to be a status code as defined in
section 7.4, and 7.4.2 states that codes 0-999 are not used.  Strict peers
(e.g. the python `websockets` package) fail the connection with a protocol
error instead of completing the closing handshake.
"""
import struct
from mpgameserver.http_server import (WebSocketFrame, WebSocketOpCode,
    WebSocketTemporaryHandler, WebSocketTemporaryRingBuffer, readFrameFactory)

def valid_close_code(code):
    # RFC 6455 7.4.1 / 7.4.2: codes allowed to appear in a Close frame
    return code in (1000, 1001, 1002, 1003, 1007, 1008, 1009, 1010, 1011) \
        or 3000 <= code <= 4999

class Request(object):
    def __init__(self):
        self.out = b""
        self.chunked = 0
    def write(self, data):
        self.out += data

class Endpoint(object):
    def __init__(self): self.events = []
    def callback(self, ws, opcode, payload): self.events.append((opcode, payload))

class Pipe(object):
    def __init__(self, buf): self.buf = buf
    def recv(self, n):
        data, self.buf = self.buf[:n], self.buf[n:]
        return data

def masked_client_frame(opcode, payload, key=b"\x01\x02\x03\x04"):
    assert len(payload) <= 125
    body = bytes(b ^ key[i % 4] for i, b in enumerate(payload))
    return struct.pack("!BB", 0x80 | opcode, 0x80 | len(payload)) + key + body

failures = []

# 1. the frame as built by the library
frame = WebSocketFrame.Close()
code, = struct.unpack("!H", frame.payload[:2])
if not valid_close_code(code):
    failures.append("WebSocketFrame.Close() carries status code %d" % code)

# 2. the bytes actually sent by the handler when the client closes normally
req = Request()
endpt = Endpoint()
handler = WebSocketTemporaryHandler(("127.0.0.1", 1), {}, {}, WebSocketTemporaryRingBuffer(req), endpt)
handler(masked_client_frame(0x8, struct.pack("!H", 1000)))
assert endpt.events and endpt.events[0][0] == WebSocketOpCode.Close
reply = readFrameFactory(Pipe(req.out))()
assert reply.flags.opcode == WebSocketOpCode.Close
code, = struct.unpack("!H", bytes(reply.payload[:2]))
if not valid_close_code(code):
    failures.append("close handshake reply sent on the wire carries status code %d (client sent 1000)" % code)

for f in failures:
    print("FAIL", f)
assert not failures, "Close frame is not a valid RFC 6455 close frame"
print("ok")
