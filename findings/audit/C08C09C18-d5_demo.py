"""
C09 (low severity): the isServer field of a PacketHeader does not survive an
encode/decode round trip - it always comes back inverted.  to_bytes() writes
the direction identifier from the *sender's* role (isServer -> b"FSOC"), while
from_bytes() sets hdr.isServer = (ident == b"FSOS"), i.e. the *receiver's* role.
A decoded header therefore re-encodes to different bytes (other direction
identifier, hence another IV/AAD), and contradicts the attribute documentation
("isServer: True when it is the server constructing the header").
"""
from mpgameserver.connection import PacketHeader, PacketType, SeqNum, Packet, PendingMessage

failures = []
for sender_is_server in (True, False):
    hdr = PacketHeader.create(sender_is_server, 1234567, PacketType.APP, SeqNum(7), SeqNum(3), 0xA5A5A5A5)
    pkt = Packet.create(hdr, [PendingMessage(SeqNum(1), PacketType.APP, b"payload", None, 0)])
    for key in (None, b"k" * 16):
        datagram = pkt.to_bytes(key)
        # decoded by the other side
        hdr2 = PacketHeader.from_bytes(not sender_is_server, datagram)
        pkt2 = Packet.from_bytes(hdr2, key, datagram)
        same = (hdr2.ctime, hdr2.pkt_type, hdr2.seq, hdr2.ack, hdr2.ack_bits, hdr2.length, hdr2.count) == \
               (hdr.ctime, hdr.pkt_type, hdr.seq, hdr.ack, hdr.ack_bits, hdr.length, hdr.count)
        assert same, "other fields round trip (this part passes)"
        if hdr2.isServer != hdr.isServer:
            failures.append("sender isServer=%s key=%s: decoded header has isServer=%s" % (
                hdr.isServer, "yes" if key else "no", hdr2.isServer))
        if pkt2.hdr.to_bytes() != datagram[:PacketHeader.SIZE]:
            failures.append("sender isServer=%s key=%s: decoded header re-encodes to %r, wire had %r" % (
                hdr.isServer, "yes" if key else "no", pkt2.hdr.to_bytes()[:4], datagram[:4]))

for f in failures:
    print("FAIL", f)
assert not failures, "PacketHeader.isServer does not round trip"
print("ok")
