#! PYTHONPATH=/tmp/aud/A /venv/bin/python d3_demo.py
"""
C01 - a forged datagram makes the server deliver a message to the application.

UdpServerThread.run() only hands client.incoming_messages to
EventHandler.handle_message() in the branch for established connections, and
it does so after EVERY datagram from that address, whether or not
_recv_datagram() accepted it. The branch for connections that are still in
the handshake never dispatches.

An application message which travels in the same datagram as the
CHALLENGE_RESP (the natural result of calling send() from the connect
callback: both are queued before the next packet is built) is therefore
parked in incoming_messages when the connection is promoted. It is handed to
the application by whatever datagram shows up next from that address - here a
datagram of random bytes that fails authentication (source address spoofed,
no key needed).

This demo runs the real UdpServerThread with a mock socket. The client
connection is driven by hand, so it sends nothing after the handshake.
"""
import os
import sys
import time
import struct
import logging
logging.disable(logging.CRITICAL)

from threading import Lock
from mpgameserver.connection import ClientServerConnection, PacketHeader, PacketType, \
    ConnectionStatus, SeqNum
from mpgameserver.context import ServerContext
from mpgameserver.handler import EventHandler
from mpgameserver.server import UdpServerThread
from mpgameserver.crypto import EllipticCurvePrivateKey

class Sock(object):
    def __init__(self):
        self.lk = Lock()
        self.sent = []
    def sendto(self, datagram, addr):
        with self.lk:
            self.sent.append((datagram, addr))
    def pop(self):
        with self.lk:
            return self.sent.pop(0) if self.sent else None

class Handler(EventHandler):
    def __init__(self):
        self.connected = []
        self.messages = []
    def connect(self, client):
        self.connected.append(client.addr)
    def handle_message(self, client, seqnum, msg):
        self.messages.append(msg)

def wait_for(fn, timeout=2.0):
    t0 = time.time()
    while time.time() - t0 < timeout:
        v = fn()
        if v:
            return v
        time.sleep(0.005)
    raise AssertionError("timeout waiting for the server thread")

ADDR = ("10.0.0.1", 40000)
root = EllipticCurvePrivateKey.new()
handler = Handler()
ctxt = ServerContext(handler, root)
sock = Sock()
thread = UdpServerThread(sock, ctxt)
thread.start()

rc = 1
try:
    client = ClientServerConnection(("10.0.0.9", 1474))
    client.setServerPublicKey(root.getPublicKey())
    # the application says hello as soon as it is told that it is connected
    client.connection_callback = lambda ok: ok and client.send(b"join")
    client._sendClientHello()

    ch = client._encode_packet(client._build_packet())
    thread.append(ADDR, PacketHeader.from_bytes(True, ch), ch)

    sh, _ = wait_for(sock.pop)
    client._recv_datagram(PacketHeader.from_bytes(False, sh), sh)
    assert client.status == ConnectionStatus.CONNECTED

    time.sleep(client.send_interval * 2)
    pkt = client._build_packet()
    assert pkt.hdr.pkt_type == PacketType.CHALLENGE_RESP and pkt.hdr.count == 2, pkt
    cr = client._encode_packet(pkt)
    thread.append(ADDR, PacketHeader.from_bytes(True, cr), cr)

    wait_for(lambda: ADDR in ctxt.connections and handler.connected)
    conn = ctxt.connections[ADDR]
    print("server reports the client as connected")

    time.sleep(0.3) # ~18 server ticks
    print("0.3s later, messages handed to the application: %r" % handler.messages)
    print("            parked in conn.incoming_messages  : %r" % [m for s, m in conn.incoming_messages])
    before = list(handler.messages)
    snapshot = (conn.session_key_bytes, conn.status, conn.last_recv_time,
        conn.bitfield_pkt.current_seqnum, conn.bitfield_pkt.bits,
        conn.bitfield_msg.current_seqnum, conn.bitfield_msg.bits, conn.stats.received)

    # attacker: valid magic / direction, everything else random. not produced with the key.
    forged = struct.pack(">4sLHHBHBL", b"FSOS", int(time.time()), 7, 0, PacketType.APP.value, 32, 1, 0) + os.urandom(32 + 16)
    thread.append(ADDR, PacketHeader.from_bytes(True, forged), forged)
    wait_for(lambda: conn.stats.dropped >= 1)
    time.sleep(0.1)

    after = list(handler.messages)
    snapshot2 = (conn.session_key_bytes, conn.status, conn.last_recv_time,
        conn.bitfield_pkt.current_seqnum, conn.bitfield_pkt.bits,
        conn.bitfield_msg.current_seqnum, conn.bitfield_msg.bits, conn.stats.received)
    assert snapshot == snapshot2, "the connection itself did drop the forged datagram"
    print("forged datagram injected and dropped by the connection (stats.dropped=%d)" % conn.stats.dropped)
    print("messages handed to the application afterwards: %r" % after)

    if after != before:
        print("\nFAIL: processing a datagram that fails authentication delivered %r to EventHandler.handle_message" % after[len(before):])
        rc = 1
    else:
        print("all fine")
        rc = 0
finally:
    ctxt._active = False
    thread._wake()
    thread.join()

sys.exit(rc)
