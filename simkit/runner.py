"""Batch search, replay files, delta-debugging minimiser, known-findings, evidence.

A *check* object provides:
  pid, level, rule, assumptions, components_real, components_stub
  cases(tier, seed) -> iterable of (index, case)     case = JSON dict (cfg, plan, fates, ...)
  execute(case) -> result dict:
      {"violations":[{"kind","key","detail"}...], "digest", "nontrivial":bool, "class":str,
       "faults":{}, "probes":{}, "sim_s", "events", "states":[...], "sample":{...}, "taken":{...}}
  shrinkable(case) -> list of (name, getter, setter) sequences that ddmin may reduce
"""
import os
import sys
import json
import time
import hashlib
import traceback
import subprocess
import collections
import multiprocessing
import faulthandler
import signal
from concurrent.futures import ProcessPoolExecutor, as_completed
from concurrent.futures.process import BrokenProcessPool

VERIF = os.path.dirname(os.path.dirname(os.path.abspath(__file__)))


def h64(*parts):
    return int.from_bytes(hashlib.blake2b("|".join(map(str, parts)).encode(), digest_size=8).digest(), "big")


class RunWallTimeout(BaseException):
    pass


def _alarm(signum, frame):
    raise RunWallTimeout()


def safe_execute(check, case, wall_s=120):
    """Run one case; harness failures are reported as such, never as violations."""
    old = signal.signal(signal.SIGALRM, _alarm)
    signal.setitimer(signal.ITIMER_REAL, wall_s)
    try:
        r = check.execute(case)
        r.setdefault("violations", [])
        return r
    except RunWallTimeout:
        return {"harness_error": "wall timeout %ds" % wall_s, "violations": []}
    except BaseException as e:          # noqa
        if isinstance(e, KeyboardInterrupt):
            raise
        return {"harness_error": "%s: %s\n%s" % (type(e).__name__, e, traceback.format_exc()[-3000:]),
                "violations": []}
    finally:
        signal.setitimer(signal.ITIMER_REAL, 0)
        signal.signal(signal.SIGALRM, old)


_CHECK = None
_STATES = set()


_COV = None


def _coverage_start():
    """VERIF_COVERAGE=<dir>: record which source lines of the repository under test the simulated runs execute (a
    reach measure: lines of the anchored files no run ever executes are behaviour no check can judge).  Uses its own
    sys.monitoring tool id with LINE events that disable themselves after the first hit, so the cost is one callback
    per line per worker; it draws no random number and reads no clock, so schedules and digests are unchanged."""
    global _COV
    d = os.environ.get("VERIF_COVERAGE")
    mon = getattr(sys, "monitoring", None)
    if not d or mon is None or _COV is not None:
        return
    root = os.path.join(os.path.realpath(os.environ.get("VERIF_REPO", "/repo")), "mpgameserver") + os.sep
    hits = set()
    tool = 3
    try:
        mon.use_tool_id(tool, "verif-coverage")
    except Exception:       # noqa
        return

    def on_line(code, line):
        fn = code.co_filename
        if fn.startswith(root):
            hits.add((fn[len(root):], line))
        return mon.DISABLE
    mon.register_callback(tool, mon.events.LINE, on_line)
    mon.set_events(tool, mon.events.LINE)
    _COV = (d, hits)


def _coverage_flush():
    if _COV is None:
        return
    d, hits = _COV
    os.makedirs(d, exist_ok=True)
    path = os.path.join(d, "%s-%d.json" % (getattr(_CHECK, "pid", "x"), os.getpid()))
    json.dump(sorted(hits), open(path + ".tmp", "w"))
    os.replace(path + ".tmp", path)


def _worker(args):
    idxs, cases, wall_s = args
    _coverage_start()
    try:
        return _worker_impl(idxs, cases, wall_s)
    finally:
        _coverage_flush()


def _worker_impl(idxs, cases, wall_s):
    out = []
    for i, case in zip(idxs, cases):
        t = time.time()
        r = safe_execute(_CHECK, case, wall_s)
        r["index"] = i
        r["wall"] = time.time() - t
        r.pop("taken", None)
        r.pop("world", None)
        # abstract states travel as 64-bit hashes (only their number is reported)
        if r.get("states"):
            r["states"] = [h64(repr(x)) for x in r["states"]]
        # keep the case only where the parent needs it
        if r.get("violations") or r.get("harness_error"):
            r["case"] = case
        out.append(r)
    return out


def vsig(v):
    return "%s|%s" % (v["kind"], v.get("key", ""))


class KnownFindings:
    def __init__(self, path=None):
        # (VERIF_KNOWN_FINDINGS=<other file> is only used to regenerate the replay files of open findings: with an empty
        # list they are reported, minimised and written like any violation)
        self.path = path or os.environ.get("VERIF_KNOWN_FINDINGS") or os.path.join(VERIF, "known_findings.json")
        try:
            self.entries = json.load(open(self.path))["findings"]
        except FileNotFoundError:
            self.entries = []

    def match(self, pid, v):
        import re
        for e in self.entries:
            if e.get("status") != "open" or e["property"] != pid:
                continue
            if e["kind"] != v["kind"]:
                continue
            if re.fullmatch(e.get("key", ".*"), v.get("key", "")):
                return e
        return None


def ddmin(items, test, budget):
    """Classic ddmin over a list; `test(sublist)` -> True if the failure persists."""
    n = 2
    items = list(items)
    while len(items) >= 1 and budget():
        chunk = max(1, len(items) // n)
        reduced = False
        i = 0
        while i < len(items) and budget():
            cand = items[:i] + items[i + chunk:]
            if test(cand):
                items = cand
                n = max(n - 1, 2)
                reduced = True
            else:
                i += chunk
        if not reduced:
            if chunk == 1:
                break
            n = min(len(items), n * 2)
    return items


def shrink(check, case, target, max_runs=150, max_s=90.0):
    """Minimise `case` while a violation with signature `target` persists."""
    t0 = time.time()
    runs = [0]

    def budget():
        return runs[0] < max_runs and time.time() - t0 < max_s

    def fails(c):
        runs[0] += 1
        r = safe_execute(check, c, getattr(check, "per_run_wall_s", 120))
        return any(vsig(v) == target for v in r["violations"]), r

    best = json.loads(json.dumps(case))
    # 1. pin the fates: table mode must reproduce
    if best.get("fates") is None and hasattr(check, "pin_fates"):
        ok, r = fails(best)
        if not ok:
            return None, "original does not reproduce"
        pinned = check.pin_fates(best, r)
        if pinned is not None:
            ok, _ = fails(pinned)
            if ok:
                best = pinned
    if hasattr(check, "trim"):
        ok, r = fails(best)
        if ok:
            c = check.trim(json.loads(json.dumps(best)), r, target)
            if c is not None and fails(c)[0]:
                best = c
    for name, get, put in check.shrinkable(best):
        if not budget():
            break
        seq = get(best)
        if not seq:
            continue

        def test(sub, put=put):
            c = json.loads(json.dumps(best))
            put(c, sub)
            return fails(c)[0]
        small = ddmin(seq, test, budget)
        if len(small) < len(seq):
            put(best, small)
    ok, r = fails(best)
    if not ok:
        return None, "minimised case does not reproduce"
    best["_shrink_runs"] = runs[0]
    return best, r


def write_replay(check, case, v, result, tag):
    d = os.path.join(VERIF, "replays")
    os.makedirs(d, exist_ok=True)
    name = "%s-%s-%s.json" % (check.pid, tag, hashlib.sha1(vsig(v).encode()).hexdigest()[:8])
    path = os.path.join(d, name)
    json.dump({"property": check.pid, "violation": v, "expect": vsig(v), "digest": result.get("digest"),
               "case": case}, open(path, "w"), indent=1, default=str)
    return path


def replay_file(check, path):
    rp = json.load(open(path))
    r = safe_execute(check, rp["case"], getattr(check, "per_run_wall_s", 120) * 2)
    if r.get("harness_error"):
        print("HARNESS-ERROR during replay:", r["harness_error"])
        return 2
    hit = [v for v in r["violations"] if vsig(v) == rp["expect"]]
    for v in r["violations"]:
        print("replayed violation:", json.dumps(v, default=str)[:600])
    print("digest", r.get("digest"), "recorded", rp.get("digest"))
    if hit:
        print("VIOLATION property=%s replay=%s" % (check.pid, path))
        return 1
    print("replay did not reproduce %s" % rp["expect"])
    return 0


def run_batch(check, tier, seed, workers=None, budget_s=None, n_cases=None, verbose=True):
    global _CHECK
    _CHECK = check
    _STATES.clear()
    t0 = time.time()
    workers = workers or int(os.environ.get("VERIF_WORKERS", "0")) or min(16, os.cpu_count() or 4)
    budget_s = budget_s or float(os.environ.get("VERIF_BUDGET_S", "0")) or check.budget[tier]
    import itertools
    total = check.ncases[tier] if hasattr(check, "ncases") else None
    gen = check.cases(tier, seed)
    if n_cases:
        gen = itertools.islice(gen, n_cases)
        total = min(total, n_cases) if total else n_cases
    per_run_wall = getattr(check, "per_run_wall_s", 120)
    chunk = getattr(check, "chunk", None) or max(1, min(8, (total or 64) // (workers * 4) or 1))
    results = []
    harness_errors = []
    ctx = multiprocessing.get_context("fork")
    submitted = 0
    exhausted = False
    with ProcessPoolExecutor(max_workers=workers, mp_context=ctx) as ex:
        pending = set()

        def submit_more():
            nonlocal submitted, exhausted
            while len(pending) < workers * 2 and not exhausted:
                if time.time() - t0 > budget_s:
                    exhausted = True
                    return
                ch = list(itertools.islice(gen, chunk))      # cases are generated lazily: thorough tiers are large
                if not ch:
                    exhausted = True
                    return
                submitted += len(ch)
                f = ex.submit(_worker, ([i for i, _ in ch], [c for _, c in ch], per_run_wall))
                pending.add(f)
        submit_more()
        while pending:
            done = next(as_completed(pending, timeout=per_run_wall * chunk + 120))
            pending.discard(done)
            try:
                for r in done.result():
                    _STATES.update(r.pop("states", ()) or ())
                    if len(results) >= 12 and not r.get("violations"):
                        r.pop("sample", None)         # a few samples are enough; long batches stay small in memory
                    results.append(r)
            except BrokenProcessPool as e:
                harness_errors.append("worker died: %s" % e)
                break
            except Exception as e:      # noqa
                harness_errors.append("worker error: %s" % e)
            submit_more()
    skipped = max(0, (total or submitted) - submitted)
    results.sort(key=lambda r: r["index"])
    return finish(check, tier, seed, results, harness_errors, skipped, t0, verbose)


def finish(check, tier, seed, results, harness_errors, skipped, t0, verbose=True):
    if os.environ.get("VERIF_SURVEY"):
        c = collections.Counter()
        ex = {}
        for r in results:
            if r.get("harness_error"):
                c["HARNESS|" + r["harness_error"].splitlines()[0][:100]] += 1
            for v in r["violations"]:
                c[vsig(v)] += 1
                ex.setdefault(vsig(v), (r["index"], v.get("detail")))
        for s, n in c.most_common():
            print("%6d  %s   e.g. %s" % (n, s, json.dumps(ex.get(s), default=str)[:300]))
        print("runs", len(results), "wall %.1f" % (time.time() - t0))
        return 0
    kf = KnownFindings()
    known_seen = collections.OrderedDict()
    new = []          # (result, violation)
    for r in results:
        if r.get("harness_error"):
            harness_errors.append("case %s: %s" % (r["index"], r["harness_error"]))
        for v in r["violations"]:
            e = kf.match(check.pid, v)
            if e is not None:
                known_seen.setdefault(e["id"], (e, v, r))
            else:
                new.append((r, v))
    exit_code = 0
    reported = []
    only = os.environ.get("VERIF_REPORT_KINDS")
    if only:
        new = [(r, v) for r, v in new if v["kind"] in only.split(",") or vsig(v) in only.split(",")]
    if new:
        # one report per distinct signature, smallest case first
        by_sig = collections.OrderedDict()
        for r, v in sorted(new, key=lambda rv: (rv[0].get("sim_s", 0), rv[0]["index"])):
            by_sig.setdefault(vsig(v), (r, v))
        for s, (r, v) in list(by_sig.items())[:int(os.environ.get("VERIF_MAX_REPORTS", 0)) or getattr(check, "max_reports", 3)]:
            case = r["case"]
            small, rr = shrink(check, case, s, max_s=getattr(check, "shrink_s", 90.0))
            if small is None:
                # keep the unminimised case, check it reproduces at all
                r2 = safe_execute(check, case, getattr(check, "per_run_wall_s", 120))
                if not any(vsig(x) == s for x in r2["violations"]):
                    harness_errors.append("nondeterministic: %s did not reproduce (%s)" % (s, rr))
                    continue
                small, rr = case, r2
            path = write_replay(check, small, v, rr, "seed%s-i%s" % (seed, r["index"]))
            # replay in a fresh interpreter: it must fail the same way
            p = subprocess.run([sys.executable, os.path.join(VERIF, "bin", "check"), check.pid, "--replay", path],
                               capture_output=True, text=True, timeout=600,
                               env=dict(os.environ, PYTHONHASHSEED="0"))
            if p.returncode != 1:
                path2 = write_replay(check, case, v, r, "seed%s-i%s-full" % (seed, r["index"]))
                p = subprocess.run([sys.executable, os.path.join(VERIF, "bin", "check"), check.pid, "--replay", path2],
                                   capture_output=True, text=True, timeout=600,
                                   env=dict(os.environ, PYTHONHASHSEED="0"))
                if p.returncode != 1:
                    harness_errors.append("nondeterministic: fresh-interpreter replay of %s did not reproduce" % s)
                    continue
                path = path2
            reported.append((path, v))
            exit_code = 1
    for fid, (e, v, r) in known_seen.items():
        print("KNOWN-FINDING: property=%s %s [%s] e.g. %s" % (check.pid, e["what"], fid, json.dumps(v.get("detail"), default=str)[:200]))
    for path, v in reported:
        print("violation:", json.dumps(v, default=str)[:1000])
        print("VIOLATION property=%s replay=%s" % (check.pid, path))
    wall = time.time() - t0
    write_evidence(check, tier, seed, results, wall, skipped, known_seen, len(new), harness_errors)
    if verbose:
        ok = [r for r in results if not r.get("harness_error")]
        print("%s %s: %d runs (%d skipped by budget), %d non-trivial distinct, %.0f sim-s, %.1fs wall, %d new violations, %d known findings seen, %d harness errors"
              % (check.pid, tier, len(ok), skipped, _distinct_nontrivial(results), sum(r.get("sim_s", 0) for r in ok), wall,
                 len(new), len(known_seen), len(harness_errors)))
    if verbose and os.environ.get("VERIF_TIMING"):
        slow = sorted(((r.get("wall", 0), r["index"], r.get("sim_s"), r.get("events")) for r in results), reverse=True)[:6]
        print("slowest runs (wall s, index, sim s, events):", slow)
    if harness_errors:
        for h in harness_errors[:5]:
            print("HARNESS-ERROR:", h[:2000])
        if exit_code == 0:
            exit_code = 2
    return exit_code


def _distinct_nontrivial(results):
    return len({r.get("class") or r.get("digest") for r in results if r.get("nontrivial") and not r.get("harness_error")})


def write_evidence(check, tier, seed, results, wall, skipped, known_seen, n_new, harness_errors):
    ok = [r for r in results if not r.get("harness_error")]
    faults = collections.Counter()
    probes = collections.Counter()
    states = set()
    injections = collections.Counter()
    maxima = {}
    states.update(_STATES)
    for r in ok:
        for k_, v_ in r.get("maxima", {}).items():
            if v_ > maxima.get(k_, float("-inf")):
                maxima[k_] = v_
        faults.update(r.get("faults", {}))
        probes.update(r.get("probes", {}))
        injections.update(r.get("injections", {}))
        states.update(r.get("states", ()) or ())
    samples = [r["sample"] for r in ok if r.get("sample")][: getattr(check, "n_samples", 4)]
    if not samples:
        samples = [{"note": "no run produced a sample"}]
    sim_s = sum(r.get("sim_s", 0) for r in ok)
    ev = {
        "property_id": check.pid,
        "tier": tier,
        "seed": int(seed),
        "level": check.level,
        "coverage": {
            "evaluations": len(ok),
            "distinct_nontrivial": _distinct_nontrivial(results),
            "rule": check.rule,
            "samples": samples,
            "runs_per_hour": round(len(ok) / wall * 3600) if wall > 0 else 0,
            "run_seeds": [ok[0].get("seed"), ok[-1].get("seed")] if ok else [],
            "sim_seconds_total": round(sim_s, 1),
            "sim_seconds_per_wall_hour": round(sim_s / wall * 3600) if wall > 0 else 0,
            "events_total": sum(r.get("events", 0) for r in ok),
            "faults_fired": dict(faults),
            "attacker_injections": dict(injections),
            "probes": dict(probes),
            "maxima_over_runs": maxima,
            "abstract_states": len(states),
            "vacuous_runs": sum(1 for r in ok if r.get("vacuous")),
            "skipped_by_budget": skipped,
            "known_findings_seen": sorted(known_seen),
            "harness_errors": len(harness_errors),
            "components_real": check.components_real,
            "components_stub": check.components_stub,
            "exhaustive": False,
        },
        "assumptions": check.assumptions,
        "wall_s": round(wall, 2),
        "violations": n_new,
    }
    extra = getattr(check, "extra_coverage", None)
    if extra:
        ev["coverage"].update(extra(ok))
    d = os.path.join(VERIF, "evidence")
    if os.path.realpath(os.environ.get("VERIF_REPO", "/repo")) != "/repo":
        # a run against another tree (a seeded change in a scratch worktree) must not overwrite the evidence of /repo
        d = os.environ.get("VERIF_EVIDENCE_DIR") or "/tmp/verif-evidence-scratch"
    os.makedirs(d, exist_ok=True)
    tmp = os.path.join(d, check.pid + ".json.tmp")
    json.dump(ev, open(tmp, "w"), indent=1, default=str)
    os.replace(tmp, os.path.join(d, check.pid + ".json"))
