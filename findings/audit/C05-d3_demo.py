"""
D3 (C07, also C05): a replayed (stale) ack field makes a send callback report
success for a message that the peer never received; a guaranteed message is
then never delivered.

run: PYTHONPATH=/tmp/aud/C /venv/bin/python d3_demo.py      (takes ~30 s)

The only replay protection is the 16 bit packet sequence number: a datagram is
rejected when it is a duplicate inside the 32 packet window or older than it.
Nothing (the 32 bit ctime in the header is never checked) distinguishes a
datagram from the one that carried the same sequence number 65535 datagrams
earlier, and it still authenticates: it was produced with the session key.
At 60 datagrams per second the numbers wrap after 18 minutes.

Scenario: both sides send one small unretried message per frame (input / state).
An on-path attacker (no keys; can only record, drop and inject datagrams):
  1. records the server->client datagrams of the first minutes,
  2. one sequence-number cycle later the client sends a *guaranteed* message M;
     the attacker drops the few datagrams the client sends in the next frames
     and, instead of the genuine server datagram with sequence number X,
     delivers the recorded datagram which had the same sequence number X one
     cycle ago.  Its (stale) ack field names exactly the sequence number of
     the datagram that carried M.
  3. after that the attacker is passive, the network is perfect.
Result: ConnectionBase._handle_ack_bits acks the datagram, RetrySender reports
callback(True) and stops resending.  The server never received M.
"""
import logging
import sys
import time as _real_time
import types

logging.disable(logging.CRITICAL)

import mpgameserver.connection as C
import mpgameserver.client as CL
from mpgameserver.connection import Packet, PacketHeader, PacketType, \
    ConnectionStatus, ServerClientConnection, FragmentSender
from mpgameserver.context import ServerContext
from mpgameserver.handler import EventHandler
from mpgameserver.client import UdpClient


# --------------------------------------------------------------------------
# deterministic harness: fake clock (anchored at time.time()), mock socket
class FakeTime(object):
    def __init__(self):
        self.now = self.t0 = _real_time.time()
    def time(self):
        return self.now
    def sleep(self, d):
        self.now += d
    def __getattr__(self, name):
        return getattr(_real_time, name)

class Handler(EventHandler):
    def __init__(self):
        self.received = []
        self.client = None
    def connect(self, client):
        self.client = client
    def handle_message(self, client, seqnum, msg=b''):
        self.received.append(msg)

class MockSock(object):
    def __init__(self, sim):
        self.sim = sim
        self.inbox = []
    def sendto(self, datagram, addr):
        self.sim.net_send('c2s', datagram)
    def recvfrom(self, n):
        return self.inbox.pop(0), self.sim.saddr
    def close(self):
        pass

class Sim(object):
    def __init__(self, dt=0.017):
        self.ft = FakeTime()
        C.time = self.ft      # ConnectionBase.clock and FragmentReceiver.expired()
        CL.time = self.ft
        self.dt = dt
        self.saddr = ('127.0.0.1', 1474)
        self.caddr = ('127.0.0.1', 5555)
        self.handler = Handler()
        self.ctxt = ServerContext(self.handler)
        self.client = UdpClient()
        self.sock = MockSock(self)
        self.client._make_socket = lambda addr: self.sock
        CL.select = types.SimpleNamespace(
            select=lambda r, w, x, t: ([self.sock] if self.sock.inbox else [], [self.sock], []))
        self.inflight = []
        self.order = 0
        self.policy = lambda direction, datagram: [0.0]   # list of delays, [] = lost
        self.server_queue = []
        self.client_received = []

    @property
    def t(self):
        return self.ft.now - self.ft.t0

    def net_send(self, direction, datagram):
        for d in self.policy(direction, datagram):
            self.order += 1
            self.inflight.append((self.ft.now + d, self.order, direction, datagram))

    def deliver(self):
        due = sorted(x for x in self.inflight if x[0] <= self.ft.now)
        self.inflight = [x for x in self.inflight if x[0] > self.ft.now]
        for _, _, direction, datagram in due:
            if direction == 'c2s':
                hdr = PacketHeader.from_bytes(True, datagram)
                self.server_queue.append((self.caddr, hdr, datagram))
            else:
                self.sock.inbox.append(datagram)

    def server_tick(self):
        # the body of UdpServerThread.run for one tick
        ctxt = self.ctxt
        while self.server_queue:
            addr, hdr, datagram = self.server_queue.pop(0)
            if addr in ctxt.connections:
                client = ctxt.connections[addr]
                client._recv_datagram(hdr, datagram)
                for seqnum, msg in client.incoming_messages:
                    ctxt.handler.handle_message(client, seqnum, msg)
                client.incoming_messages = []
            elif addr in ctxt.temp_connections:
                if hdr.pkt_type != PacketType.CHALLENGE_RESP:
                    continue
                ctxt.temp_connections[addr]._recv_datagram(hdr, datagram)
            else:
                if hdr.pkt_type != PacketType.CLIENT_HELLO:
                    continue
                client = ServerClientConnection(ctxt, addr)
                client.send_keep_alive_interval = ctxt.keep_alive_interval
                client.outgoing_timeout = ctxt.outgoing_timeout
                ctxt.temp_connections[addr] = client
                client._recv_datagram(hdr, datagram)
        sending = []
        for client in list(ctxt.connections.values()) + list(ctxt.temp_connections.values()):
            msg = client.update()
            if msg is not None:
                sending.append(msg)
        for pkt, key, addr in sending:
            self.net_send('s2c', pkt.to_bytes(key))

    def step(self, n=1):
        for _ in range(n):
            self.ft.now += self.dt
            self.deliver()
            self.server_tick()
            self.client.update()
            self.client_received.extend(m for _, m in self.client.getMessages())

    def connect(self):
        self.client.connect(self.saddr, None)
        for i in range(30):
            self.step()
        assert self.client.connected() and self.handler.client is not None
        self.sconn = self.handler.client
        self.cconn = self.client.conn

# --------------------------------------------------------------------------


sim = Sim()
sim.connect()

recorded = {}          # server packet seq -> datagram recorded in the first cycle
state = {'phase': 'record', 'victim_seq': None, 'dropped': 0, 'replayed': None}

def acks(hdr, seq):
    diff = hdr.ack.diff(seq)
    return diff == 0 or (1 <= diff <= 32 and bool(hdr.ack_bits & (0x80000000 >> (diff - 1))))

def attacker(direction, datagram):
    phase = state['phase']
    if direction == 's2c':
        hdr = PacketHeader.from_bytes(False, datagram)
        if phase == 'record':
            recorded[int(hdr.seq)] = datagram
        elif phase == 'attack':
            old = recorded.get(int(hdr.seq))
            if old is not None and acks(PacketHeader.from_bytes(False, old), state['victim_seq']):
                state['replayed'] = int(hdr.seq)
                state['phase'] = 'passive'
                sim.order += 1
                sim.inflight.append((sim.ft.now, sim.order, 's2c', old))   # inject the recording
                return []                                                   # withhold the genuine one
    else:
        if phase == 'attack':
            state['dropped'] += 1
            return []
    return [0.0]

sim.policy = attacker

frame = 0
def tick():
    global frame
    sim.client.send(b"input %9d" % frame, retry=0)
    sim.sconn.send(b"state %9d" % frame, retry=0)
    sim.step()
    frame += 1

for _ in range(600):          # 10 s: the attacker records
    tick()
state['phase'] = 'idle'
first_cycle_seq = int(sim.cconn.seq_sending)

# let the client sequence number come around once (65535 datagrams, ~18 minutes)
while True:
    tick()
    s = int(sim.cconn.seq_sending)
    if frame > 2000 and s == 300:
        break
assert sim.client.connected() and sim.sconn.status == ConnectionStatus.CONNECTED

M = b"guaranteed message that the server must receive"
result = []
sim.client.send_guaranteed(M, result.append)
state['victim_seq'] = sim.cconn.seq_sending + 1      # the next datagram carries M
state['phase'] = 'attack'
while state['phase'] == 'attack':
    tick()
t_attack = sim.t

for _ in range(60 * 20):      # 20 s: the network is perfect again
    tick()

print("client datagrams dropped by the attacker :", state['dropped'])
print("server datagram replaced by a recording  : seq %s" % state['replayed'])
print("connection still open                    :", sim.client.connected(), sim.sconn.status)
print("callback(M)                              :", result)
print("M delivered to the server application    :", M in sim.handler.received)
print("M still queued / retried by the client   :", any(m.payload == M for m in sim.cconn.outgoing_messages + list(sim.cconn.pending_retry_msg.values())))

assert sim.client.connected() and sim.sconn.status == ConnectionStatus.CONNECTED
# C07: success is reported only after the peer accepted the message
# C05: a guaranteed message is delivered while the connection is open
assert not (result == [True] and M not in sim.handler.received), \
    "callback reported success from a replayed ack, the server never received the message"
assert M in sim.handler.received
print("OK")
