#!/venv/bin/python
"""
C10 demo: a client that the handler kicked (client.disconnect()) never gets
its disconnect event, and keeps delivering messages to the handler, because
a CLIENT_HELLO message that arrives inside the established session resets
the status of the server side connection from DISCONNECTED to CONNECTING
before the server loop sweeps it.

Drives the real UdpServerThread.run() loop (on this thread, one iteration per
EventHandler.update call), a real ClientServerConnection as the peer,
in memory datagrams and a fake clock.  exit status 0 = property holds.
"""
import sys, os, logging
sys.path.insert(0, os.path.dirname(os.path.dirname(os.path.abspath(__file__))))

import mpgameserver.connection as mconn
from mpgameserver import ServerContext, EventHandler, ConnectionStatus
from mpgameserver.server import UdpServerThread
from mpgameserver.connection import (PacketType, PacketHeader, SeqNum, RetryMode,
    ClientServerConnection, HandshakeClientHelloMessage)

logging.disable(logging.CRITICAL)

class FakeTime(object):
    now = 1000000.0
    def time(self):
        return self.now
    def __getattr__(self, name):
        import time
        return getattr(time, name)
FT = FakeTime()
mconn.time = FT     # ConnectionBase.clock = time.time, FragmentReceiver

TICK = 1/60 + 1e-4
ADDR = ("10.0.0.1", 4000)

class ServerSock(object):
    def __init__(self):
        self.sent = []
    def sendto(self, datagram, addr):
        self.sent.append((datagram, addr))

class Handler(EventHandler):
    """ the game logic: a client that sends b"cheat" is kicked """
    def __init__(self, script):
        self.events = []          # (fake time, name, client, payload)
        self.script = script(self)
        self.kick_time = None
    def connect(self, client):
        self.events.append((FT.now, "connect", client, None, client.token))
    def disconnect(self, client):
        self.events.append((FT.now, "disconnect", client, None, client.token))
    def handle_message(self, client, seqnum, msg):
        self.events.append((FT.now, "message", client, msg, client.token))
        if msg == b"cheat":
            self.kick_time = FT.now
            client.disconnect()          # server initiated disconnect
    def update(self, delta_t):
        # one call per iteration of the server loop: advance the fake
        # clock by one frame and run one step of the schedule
        FT.now += TICK
        # an unrelated datagram keeps the loop from blocking on its queue
        hdr = PacketHeader.create(False, 0, PacketType.KEEP_ALIVE, SeqNum(1), SeqNum(1), 0)
        self.thread.append(("10.9.9.9", 9), hdr, b"")
        try:
            next(self.script)
        except StopIteration:
            self.ctxt._active = False

def run(attack):
    FT.now = 1000000.0
    sock = ServerSock()

    def to_server(datagram):
        sock_thread.append(ADDR, PacketHeader.from_bytes(True, datagram), datagram)

    def script(h):
        x = ClientServerConnection(ADDR)
        x.send_interval = 0           # the peer decides itself how often it sends
        x._sendClientHello()

        def pump(rekey=False):
            for datagram, addr in sock.sent:
                hdr = PacketHeader.from_bytes(False, datagram)
                if rekey and hdr.pkt_type == PacketType.SERVER_HELLO:
                    # the server hello is sent in the clear. follow the rekey
                    x.session_key_bytes = None
                x._recv_datagram(hdr, datagram)
            del sock.sent[:]
            if not rekey:
                x.update()
            # (the peer which follows the rekey hears nothing but server
            # hellos from the server and does not care: it skips the
            # "connection dropped" detection of ClientServerConnection.update)
            pkt = x._build_packet()
            if pkt is not None:
                to_server(x._encode_packet(pkt))

        for i in range(10):
            pump(); yield
        assert x.status == ConnectionStatus.CONNECTED and len(h.ctxt.connections) == 1

        def hello_inside_session():
            hello = HandshakeClientHelloMessage()
            hello.client_pubkey = x.session_key.getPublicKey()
            hello.client_version = x.version
            x._send_type(PacketType.CLIENT_HELLO, hello.dumpb(), RetryMode.NONE, None)
            to_server(x._encode_packet(x._build_packet()))

        if attack:
            # preparation: a first client hello inside the established
            # session. the server accepts it: new key, new token, and the
            # status of the connection becomes CONNECTING
            hello_inside_session()
            yield
            for i in range(5):
                pump(rekey=True); yield
            x.outgoing_messages = []       # the challenge response is not needed
            h.token_after_hello = list(h.ctxt.connections.values())[0].token

        # datagram 1: the message the handler answers with a kick
        x.send(b"cheat")
        to_server(x._encode_packet(x._build_packet()))

        if attack:
            # datagram 2, sent right behind it: another client hello
            hello_inside_session()
        yield

        # the peer keeps talking for 30 seconds
        for i in range(30 * 60):
            if attack:
                pump(rekey=True)
                # the challenge response is not needed
                x.outgoing_messages = [m for m in x.outgoing_messages if m.type != PacketType.CHALLENGE_RESP]
            else:
                pump()
            if i % 60 == 0:
                x.send(b"still here %d" % (i // 60))
            yield
        h.end_time = FT.now

    h = Handler(script)
    h.ctxt = ServerContext(h)
    h.ctxt.interval = 1e-9               # no real sleeping in the loop
    h.thread = sock_thread = UdpServerThread(sock, h.ctxt)
    h.thread.run()                        # returns after the shutdown at the end of the script
    return h

def report(h, title):
    print("== %s" % title)
    t0 = h.events[0][0]
    problems = []
    disc = [e for e in h.events if e[1] == "disconnect"]
    for t, name, client, msg, token in h.events:
        late = " <-- after the kick" if (h.kick_time is not None and t > h.kick_time and name == "message") else ""
        if name != "message" or msg == b"cheat" or late:
            if not (late and not msg.endswith((b" 0", b" 29"))):
                print("  t=%7.3f %-10s token=%d %s%s" % (t - t0, name, token, msg or "", late))
    if h.kick_time is None:
        problems.append("the handler never saw the message")
        return problems
    print("  handler called client.disconnect() at t=%.3f" % (h.kick_time - t0))
    if len(disc) != 1:
        problems.append("%d disconnect events" % len(disc))
    else:
        delay = disc[0][0] - h.kick_time
        if delay > 1.0:
            problems.append("disconnect event %.1f s after the server initiated disconnect "
                "(only produced by the server shutdown at the end of the run)" % delay)
    after = [e for e in h.events if e[1] == "message" and e[0] > h.kick_time + 1.0]
    if after:
        problems.append("%d messages of the kicked client delivered more than 1 s after the kick, "
            "the last one %.1f s after it" % (len(after), after[-1][0] - h.kick_time))
    tokens = set(e[4] for e in h.events)
    if len(tokens) != 1:
        problems.append("client.token of the connected client changed during the session: %s" % sorted(tokens))
    return problems

def main():
    p0 = report(run(False), "control: kicked client, no hello inside the session")
    print("  problems: %s" % (p0 or "none"))
    p1 = report(run(True), "kicked client sends CLIENT_HELLO inside the session")
    print("  problems: %s" % (p1 or "none"))
    if p0:
        print("FAIL (control run is broken, demo is not valid)")
        return 2
    if p1:
        print("FAIL: C10 violated: server initiated disconnect produced no disconnect event:")
        for p in p1:
            print("   - " + p)
        return 1
    print("OK")
    return 0

if __name__ == '__main__':
    sys.exit(main())
