#!/venv/bin/python
"""
d2: FragmentReceiver.expired() reads the wall clock (time.time()) although the
timestamp it compares with comes from the connection's clock (conn.clock()).

ConnectionBase takes every timestamp from its `clock` attribute (the library's
own tests replace it: tests/connection_test.py test_conn_handshake), and
FragmentReceiver stores conn.clock() in self.ctime - but expired() computes
time.time() - self.ctime.  As soon as conn.clock is not time.time (a
monotonic clock, a simulated clock, a clock that starts at 0) every partially
received fragmented message is "older than 1 + 0.5*count seconds" the moment
its first fragment has been stored, and is deleted by the purge at the end of
that very _recvAppFragment call.  No fragmented message is ever delivered,
on a perfect network, although every fragment is acknowledged.

This program only replaces the `clock` attribute of both connections by
time.monotonic (nothing is simulated, it runs for about half a second).

exit status 0: message delivered exactly once; 1: violation
"""
import sys, os, time, logging
sys.path.insert(0, os.path.join(os.path.dirname(os.path.abspath(__file__)), ".."))
logging.disable(logging.CRITICAL)

from mpgameserver.connection import (ClientServerConnection, ServerClientConnection,
    PacketHeader, Packet, ConnectionStatus, RetryMode)
from mpgameserver.context import ServerContext
from mpgameserver.handler import EventHandler

def run(clock, label):
    ctxt = ServerContext(EventHandler(), None)
    client = ClientServerConnection(('10.0.0.1', 1111))
    server = ServerClientConnection(ctxt, ('10.0.0.2', 2222))
    if clock is not None:
        client.clock = clock
        server.clock = clock
    ctxt.temp_connections[server.addr] = server
    to_server, to_client, got = [], [], []

    def frame():
        time.sleep(0.018)     # a little more than send_interval (1/60)
        client.update()
        while to_client:
            dg = to_client.pop(0)
            client._recv_datagram(PacketHeader.from_bytes(False, dg), dg)
        t0 = client.clock()
        if t0 - client.last_send_time > client.send_interval:
            pkt = client._build_packet()
            if pkt is not None:
                to_server.append(client._encode_packet(pkt))
            client._check_timeout(t0)
        while to_server:
            dg = to_server.pop(0)
            server._recv_datagram(PacketHeader.from_bytes(True, dg), dg)
        got.extend(m for _, m in server.incoming_messages)
        server.incoming_messages = []
        out = server.update()
        if out is not None:
            pkt, key, addr = out
            to_client.append(pkt.to_bytes(key))

    client._sendClientHello()
    for i in range(6):
        frame()
    assert client.status == ConnectionStatus.CONNECTED and server.status == ConnectionStatus.CONNECTED

    msg = bytes(range(256)) * 12          # 3072 bytes: 3 fragments
    result = []
    client.send(msg, RetryMode.RETRY_ON_TIMEOUT, callback=result.append)
    for i in range(20):
        frame()
    n = got.count(msg)
    print("%-28s delivered %d time(s), sender callback %r, other messages %d, connection %s/%s" % (
        label, n, result, len(got) - n, client.status, server.status))
    return n == 1 and len(got) == 1

ok1 = run(None, "clock = time.time (default):")
ok2 = run(time.monotonic, "clock = time.monotonic:")
if not ok2:
    print("FAIL: with conn.clock = time.monotonic a 3072 byte guaranteed message is acknowledged but never delivered")
sys.exit(0 if (ok1 and ok2) else 1)
