#!/venv/bin/python
"""
d3: on a network without loss, duplication or reordering (constant 75 ms one
way delay, i.e. a 150 ms round trip) guaranteed messages are delivered to the
application two and three times.

t=0   for i in range(400): server.send_guaranteed(chunk_i)    400 x 600 bytes
t=0   server.send_guaranteed(b"tiny")                         4 bytes

The first-fit packet builder puts b"tiny" (message sequence number 402) into
the free room of the very first datagram, next to chunk 0 (sequence number 2):
it overtakes 399 queued messages.  The receiver's duplicate filter
(bitfield_msg, BitField(256)) only remembers the 256 sequence numbers below the
newest one it has seen, so from now on it can neither recognise nor record
chunk 0 .. chunk 143 (sequence numbers 2..145 are more than 256 below 402):
BitField.insert() computes an all-zero mask for them and accepts them.
Because the round trip (150 ms) is longer than the resend interval (the keep
alive interval, 100 ms) every guaranteed message is transmitted a second time
before its ack arrives - normally harmless, the copy is dropped as a duplicate -
but the copies of these chunks are accepted again and handed to the
application again.  No datagram was lost, duplicated or reordered and the
receiver had accepted only ONE newer message (not 256) when the first copies
arrived.

exit status 0: every message delivered exactly once; 1: violation
"""
import sys, os, logging, collections
sys.path.insert(0, os.path.join(os.path.dirname(os.path.abspath(__file__)), ".."))
logging.disable(logging.CRITICAL)

import mpgameserver.connection as C
from mpgameserver.connection import (ClientServerConnection, ServerClientConnection,
    PacketHeader, Packet, ConnectionStatus, RetryMode)
from mpgameserver.context import ServerContext
from mpgameserver.handler import EventHandler

class FakeTime(object):
    now = 1000.0
    def time(self):
        return self.now
FT = FakeTime()
C.time = FT

Packet.setMTU(1500)
ONE_WAY_DELAY = 0.075

ctxt = ServerContext(EventHandler(), None)
client = ClientServerConnection(('10.0.0.1', 1111))
server = ServerClientConnection(ctxt, ('10.0.0.2', 2222))
for conn in (client, server):
    conn.clock = FT.time
    conn.send_keep_alive_interval = .1     # the default of UdpClient and ServerContext
ctxt.temp_connections[server.addr] = server

to_server = []   # fifo of (arrival time, datagram): constant delay, nothing lost,
to_client = []   # nothing duplicated, nothing reordered
client_got = []
sent_to_client = 0

def frame():
    """one 60Hz frame of UdpClient.update() and of the UdpServerThread loop"""
    global sent_to_client
    FT.now += 1/60 + 0.0001
    # --- client (same steps as UdpClient.update)
    client.update()
    while to_client and to_client[0][0] <= FT.now:
        dg = to_client.pop(0)[1]
        client._recv_datagram(PacketHeader.from_bytes(False, dg), dg)
    t0 = client.clock()
    if t0 - client.last_send_time > client.send_interval:
        pkt = client._build_packet()
        if pkt is not None:
            to_server.append((FT.now + ONE_WAY_DELAY, client._encode_packet(pkt)))
        client._check_timeout(t0)
    client_got.extend(m for _, m in client.incoming_messages)
    client.incoming_messages = []
    # --- server (same steps as UdpServerThread.run)
    while to_server and to_server[0][0] <= FT.now:
        dg = to_server.pop(0)[1]
        server._recv_datagram(PacketHeader.from_bytes(True, dg), dg)
    server.incoming_messages = []
    out = server.update()
    if out is not None:
        pkt, key, addr = out
        dg = pkt.to_bytes(key)
        assert len(dg) <= Packet.MAX_SIZE
        to_client.append((FT.now + ONE_WAY_DELAY, dg))
        sent_to_client += 1

# ---- handshake
client._sendClientHello()
for i in range(40):
    frame()
assert client.status == ConnectionStatus.CONNECTED, client.status
assert server.status == ConnectionStatus.CONNECTED, server.status

chunks = [i.to_bytes(2, 'big') * 300 for i in range(400)]     # 400 different messages of 600 bytes
for chunk in chunks:
    server.send_guaranteed(chunk)
server.send_guaranteed(b"tiny")

for i in range(60 * 20):
    frame()

got = collections.Counter(client_got)
print("connection: client=%s server=%s; server datagrams sent %d, timeouts at the server %d" % (
    client.status, server.status, sent_to_client, server.stats.timeouts))
print("application messages sent: %d, deliveries to the client application: %d" % (
    len(chunks) + 1, len(client_got)))
ok = True
if got[b"tiny"] != 1:
    print("FAIL: b'tiny' delivered %d times" % got[b"tiny"]); ok = False
missing = [i for i, c in enumerate(chunks) if got[c] == 0]
dups = [(i, got[c]) for i, c in enumerate(chunks) if got[c] > 1]
if missing:
    print("FAIL: chunks never delivered: %r" % missing); ok = False
if dups:
    print("FAIL: %d chunks were delivered more than once; (chunk, deliveries): %r ..." % (len(dups), dups[:12]))
    print("      highest chunk delivered more than once: %d" % max(i for i, n in dups))
    ok = False
if any(m != b"tiny" and m not in set(chunks) for m in got):
    print("FAIL: fabricated message"); ok = False
sys.exit(0 if ok else 1)
