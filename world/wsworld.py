"""WebSocket world: the real HTTPFactory channel on a simulated TCP transport, a scripted endpoint,
an independent RFC 6455 codec, and a seeded TCP segmenter."""
import io
import os
import struct
import logging
import contextlib

import world  # noqa: F401
import mpgameserver.http_server as http_mod
from twisted.internet import task
from twisted.internet.address import IPv4Address
from twisted.internet.testing import StringTransportWithDisconnection

OPC = {"cont": 0x0, "text": 0x1, "binary": 0x2, "close": 0x8, "ping": 0x9, "pong": 0xA}


# ---------------------------------------------------------------- independent RFC 6455 codec
def ref_encode(opcode, payload, mask_key=None, fin=1):
    b0 = (fin << 7) | opcode
    n = len(payload)
    m = 0x80 if mask_key is not None else 0
    if n <= 125:
        hdr = struct.pack("!BB", b0, m | n)
    elif n <= 0xFFFF:
        hdr = struct.pack("!BBH", b0, m | 126, n)
    else:
        hdr = struct.pack("!BBQ", b0, m | 127, n)
    if mask_key is not None:
        body = bytes(b ^ mask_key[i % 4] for i, b in enumerate(payload)) if n < 4096 else _mask_fast(payload, mask_key)
        return hdr + mask_key + body
    return hdr + payload


def _mask_fast(payload, key):
    n = len(payload)
    k = (key * (n // 4 + 1))[:n]
    return (int.from_bytes(payload, "big") ^ int.from_bytes(k, "big")).to_bytes(n, "big")


def ref_decode_all(stream):
    """Parse a byte stream into [(fin, opcode, masked, payload)] + number of leftover bytes."""
    out = []
    off = 0
    while True:
        if len(stream) - off < 2:
            break
        b0, b1 = stream[off], stream[off + 1]
        n = b1 & 0x7F
        p = off + 2
        if n == 126:
            if len(stream) - p < 2:
                break
            (n,) = struct.unpack("!H", stream[p:p + 2])
            p += 2
        elif n == 127:
            if len(stream) - p < 8:
                break
            (n,) = struct.unpack("!Q", stream[p:p + 8])
            p += 8
        key = None
        if b1 & 0x80:
            if len(stream) - p < 4:
                break
            key = stream[p:p + 4]
            p += 4
        if len(stream) - p < n:
            break
        body = stream[p:p + n]
        if key is not None:
            body = _mask_fast(body, key) if n else b""
        out.append((b0 >> 7, b0 & 0x0F, key is not None, bytes(body)))
        off = p + n
    return out, len(stream) - off


class FakeClock:
    """`time` for mpgameserver.http_server (rate limiter, request timing)."""

    def __init__(self):
        self.now = 1_700_000_000.0

    def time(self):
        self.now += 1e-4
        return self.now

    perf_counter = monotonic = time

    def __getattr__(self, name):
        import time as real
        return getattr(real, name)


class Transport(StringTransportWithDisconnection):
    def setTcpNoDelay(self, flag):
        self.nodelay = flag

    def getTcpNoDelay(self):
        return getattr(self, "nodelay", False)


class Conn:
    """One TCP connection to the real HTTPFactory (its own channel, transport, endpoint log)."""

    def __init__(self, world, n):
        self.w = world
        self.log = []          # (opcode name, payload) seen by the endpoint for THIS connection (without the non-standard Open)
        self.opened = 0
        self.errors = []       # exceptions out of channel.dataReceived
        self.sock = None
        self.close_at = None   # the endpoint starts a server side close when it has seen this many frames
        peer = IPv4Address("TCP", "10.9.0.%d" % (1 + n), 50000 + n)
        ch = world.factory.buildProtocol(peer)
        if getattr(ch, "factory", None) is None:
            ch.factory = world.factory
        ch.callLater = world.clock.callLater
        self.transport = Transport(peerAddress=peer, hostAddress=IPv4Address("TCP", "10.9.0.200", 80))
        self.transport.protocol = ch
        ch.makeConnection(self.transport)
        self.channel = ch

    def upgrade(self):
        req = (b"GET /ws HTTP/1.1\r\nHost: example\r\nUpgrade: websocket\r\nConnection: Upgrade\r\n"
               b"Sec-WebSocket-Key: dGhlIHNhbXBsZSBub25jZQ==\r\nSec-WebSocket-Version: 13\r\n\r\n")
        self.w.upgrading = self
        self.channel.dataReceived(req)
        self.w.upgrading = None
        out = self.transport.value()
        self.transport.clear()
        return out

    def feed(self, chunk):
        try:
            self.channel.dataReceived(chunk)
        except Exception as e:      # noqa: twisted would log it and drop the connection
            self.errors.append("%s: %s" % (type(e).__name__, str(e)[:80]))
            return False
        return True

    def written(self):
        return self.transport.value()


class WsWorld:
    def __init__(self):
        self.echo = True
        self.conns = []
        self.by_sock = {}
        self.upgrading = None
        self.strays = []       # endpoint calls that belong to no connection of this world
        w = self

        class Echo(http_mod.Resource):
            @http_mod.websocket("/ws")
            def ws(self, sock, opcode, payload):
                if opcode == http_mod.WebSocketOpCode.Open:
                    c = w.upgrading
                    if c is None:
                        w.strays.append(("Open", None))
                        return
                    c.opened += 1
                    c.sock = sock
                    w.by_sock[id(sock)] = c
                    return
                c = w.by_sock.get(id(sock))
                if c is None:
                    w.strays.append((opcode.name(), payload))
                    return
                c.log.append((opcode.name(), payload))
                if w.echo and opcode == http_mod.WebSocketOpCode.Text:
                    sock.send(payload)
                if c.close_at is not None and len(c.log) == c.close_at:
                    sock.close()
        self.resource = Echo()

    # the first connection doubles as "the" connection of single-connection cases
    log = property(lambda self: self.conns[0].log)
    opened = property(lambda self: self.conns[0].opened)
    errors = property(lambda self: self.conns[0].errors)
    transport = property(lambda self: self.conns[0].transport)
    channel = property(lambda self: self.conns[0].channel)

    def __enter__(self):
        self._saved_time = http_mod.time
        http_mod.time = FakeClock()
        lg = logging.getLogger("mpgameserver")
        self._lg = (lg.level, lg.propagate, list(lg.handlers))
        lg.handlers = [logging.NullHandler()]
        lg.propagate = False
        lg.setLevel(logging.CRITICAL + 1)
        self._rl = logging.getLogger().level
        self._stdout = contextlib.redirect_stdout(io.StringIO())
        self._stdout.__enter__()
        router = http_mod.Router()
        router.registerRoutes(self.resource.routes())
        self.clock = task.Clock()
        self.factory = http_mod.HTTPFactory(router=router)
        self.connect()
        return self

    def connect(self):
        c = Conn(self, len(self.conns))
        self.conns.append(c)
        return c

    def __exit__(self, *exc):
        self._stdout.__exit__(None, None, None)
        lg = logging.getLogger("mpgameserver")
        lg.setLevel(self._lg[0])
        lg.propagate = self._lg[1]
        lg.handlers = self._lg[2]
        http_mod.time = self._saved_time
        return False

    def upgrade(self):
        return self.conns[0].upgrade()

    def feed(self, chunk):
        return self.conns[0].feed(chunk)

    def written(self):
        return self.conns[0].written()
