"""
C12 - an idle link does not survive an adjustment of the wall clock.

Every connection measures its keep-alive interval, its send interval and the
silence of the peer with time.time() (ConnectionBase.clock), the wall clock,
while the server loop itself is paced with time.monotonic().  When the wall
clock of the server machine is stepped (ntp/chrony step, VM resume, an
operator setting the date):

  A) a step BACK by d seconds: ServerClientConnection.update()/_build_packet()
     see "now - last_send_time" negative and build nothing for d seconds. The
     server emits no datagram at all, to any client, for d seconds.  With
     d > 5 every (healthy, answering) client reports DROPPED.
  B) a step FORWARD by d >= connection_timeout: timedout() sees an age of d
     and the server drops every client in the same tick although each of them
     was heard a few milliseconds earlier.

The real UdpServerThread.run() loop is driven single threaded with injected
clocks: `mpgameserver.server.time` supplies monotonic()/perf_counter()/sleep()
and `mpgameserver.connection.time` supplies the wall clock of the server
machine = monotonic + skew. The client runs on another machine, its clock is
steady. The network is perfect and nobody sends application data.

run: PYTHONPATH=/tmp/aud2/E /venv/bin/python d1_demo.py
"""
import sys, logging
import time as real_time

import mpgameserver.server as srv
import mpgameserver.connection as conn
from mpgameserver import ServerContext, EventHandler
from mpgameserver.connection import ClientServerConnection, PacketHeader, ConnectionStatus
from mpgameserver.server import UdpServerThread

logging.disable(logging.CRITICAL)

KEEP_ALIVE = 0.1
TICK = 1 / 60
FRAME = 1 / 60

class Mono(object):
    """ monotonic time of the simulation. time only passes in sleep() """
    def __init__(self):
        self.now = real_time.time()
        self.hook = None
    def monotonic(self): return self.now
    def perf_counter(self): return self.now
    def sleep(self, d):
        if d > 0:
            target = self.now + d
            if self.hook:
                self.hook(target)
            self.now = target

class Wall(object):
    """ wall clock of the server machine """
    def __init__(self, mono):
        self.mono = mono
        self.skew = 0.0
    def time(self): return self.mono.now + self.skew

class FakeCond(object):
    """ stands in for the Condition of the server thread (single threaded) """
    def __init__(self, world): self.world = world
    def __enter__(self): return self
    def __exit__(self, *a): return False
    def notify_all(self): pass
    def wait(self, timeout=None):
        # the server has no connection left and nothing is queued
        self.world.ctxt.shutdown()

class World(EventHandler):

    def __init__(self, step_at, step_by, duration):
        self.mono = Mono()
        self.wall = Wall(self.mono)
        srv.time = self.mono
        conn.time = self.wall   # ConnectionBase.clock = time.time

        self.start = self.mono.now
        self.step_at, self.step_by, self.duration = step_at, step_by, duration
        self.stepped = False

        self.ctxt = ServerContext(self)
        self.ctxt.setKeepAliveInterval(KEEP_ALIVE)
        self.ctxt.setInterval(TICK)
        self.thread = UdpServerThread(self, self.ctxt)   # self is the socket
        self.thread.lk_queue = self.thread.cv_queue = FakeCond(self)

        # the client lives on another machine: steady clock
        self.addr = ("10.0.0.1", 1000)
        self.client = ClientServerConnection(("server", 1))
        self.client.clock = lambda: self.mono.now
        self.client.send_keep_alive_interval = KEEP_ALIVE
        self.client._sendClientHello()
        self.client_next = self.mono.now
        self.inbox = []

        self.events = []
        self.server_emits = []
        self.client_emits = []
        self.dropped_at = None

        self.mono.hook = self.client_frames

    def t(self):
        return self.mono.now - self.start

    # socket of the server
    def sendto(self, datagram, addr):
        self.server_emits.append(self.t())
        self.inbox.append(datagram)

    # the client: UdpClient.update() without the socket
    def client_frames(self, target):
        while self.client_next <= target:
            self.mono.now = max(self.mono.now, self.client_next)
            self.client_next += FRAME
            c = self.client
            c.update()
            if c.status == ConnectionStatus.DROPPED:
                if self.dropped_at is None:
                    self.dropped_at = self.t()
                continue
            while self.inbox:
                d = self.inbox.pop(0)
                c._recv_datagram(PacketHeader.from_bytes(False, d), d)
            t0 = c.clock()
            if t0 - c.last_send_time > c.send_interval:
                pkt = c._build_packet()
                if pkt is not None:
                    d = c._encode_packet(pkt)
                    self.client_emits.append(self.t())
                    # perfect network, the entry point of _UdpServer.run
                    self.thread.queue.append((self.addr, PacketHeader.from_bytes(True, d), d))
                c._check_timeout(t0)

    # handler events
    def connect(self, client):
        self.events.append(("connect", round(self.t(), 3)))
    def disconnect(self, client):
        self.events.append(("disconnect", round(self.t(), 3)))
    def update(self, delta_t):
        if not self.stepped and self.t() >= self.step_at:
            self.stepped = True
            self.wall.skew += self.step_by      # the wall clock is adjusted
        if self.t() >= self.duration:
            self.ctxt.shutdown()

    def run(self):
        self.client_frames(self.mono.now)
        self.thread.run()

def max_gap(times, t_from, t_to):
    times = [t for t in times if t_from <= t <= t_to]
    times = [t_from] + times + [t_to]
    return max(b - a for a, b in zip(times, times[1:]))

failures = []

# ---------------------------------------------------------------- scenario A
w = World(step_at=3.0, step_by=-10.0, duration=20.0)
w.run()
gap = max_gap(w.server_emits, 1.0, 19.0)
print("A) wall clock of the server stepped back 10s at t=3 (idle link, perfect network)")
print("   handler events            :", w.events)
print("   longest server silence    : %.3fs (allowed: keep alive %.3f + one tick %.3f)" % (gap, KEEP_ALIVE, TICK))
print("   longest client silence    : %.3fs" % max_gap(w.client_emits, 1.0, min(19.0, w.dropped_at or 19.0)))
print("   client status             :", w.client.status, "dropped at t=%s" % (w.dropped_at and round(w.dropped_at, 3)))
if gap > KEEP_ALIVE + 2 * TICK + 0.01:
    failures.append("A: the server emitted nothing for %.2fs on an idle, healthy link" % gap)
if w.client.status != ConnectionStatus.CONNECTED:
    failures.append("A: the client reports %s although the network never failed" % w.client.status)

# ---------------------------------------------------------------- scenario B
w = World(step_at=3.0, step_by=+6.0, duration=10.0)
w.run()
print("B) wall clock of the server stepped forward 6s at t=3 (connection timeout 5s)")
print("   handler events            :", w.events)
last_heard = max([t for t in w.client_emits if t <= 3.0 + TICK] or [0])
print("   client was last heard at  : t=%.3f" % last_heard)
early = [e for e in w.events if e[0] == "disconnect" and e[1] < 9.5]
if early:
    failures.append("B: the server timed the client out at t=%.3f, %.3fs after it was last heard (timeout is 5s)"
        % (early[0][1], early[0][1] - last_heard))

print()
for f in failures:
    print("VIOLATION:", f)
if failures:
    sys.exit(1)
print("ok")
