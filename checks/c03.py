"""C03 - AES-GCM nonces never repeat; nothing but the hellos travels in clear."""
import collections

from checks.common import UdpCheck, Monitor, gen_traffic, limits
from checks.c04 import install_stream
from world.udpworld import SERVER_ADDR, PacketType
from world import refmodel as R


class NonceMonitor(Monitor):
    wants_build = True

    def attach(self, world):
        self.w = world
        self.pending = {}        # (src, dst, seq) -> (key, type, idents)
        self.nonces = collections.defaultdict(set)      # key -> set of 12-byte nonces
        self.per_key = collections.Counter()
        self.checked = 0
        self.tamper_checked = 0
        world.net.taps.append(self.tap)

    def on_build(self, conn, pkt, pre=None):
        src = SERVER_ADDR if conn.isServer else None
        if src is None:
            for cn in self.w.clients:
                if cn.client is not None and cn.client.conn is conn:
                    src = cn.addr
                    break
        dst = tuple(conn.addr) if conn.isServer else SERVER_ADDR
        idents = [bytes(m.payload[:8]) for m in pkt.msgs
                  if m.type.value == PacketType.APP.value and len(m.payload) >= 8 and m.payload[0] == 0xA5]
        idents += [bytes(m.payload[6:14]) for m in pkt.msgs
                   if m.type.value == PacketType.APP_FRAGMENT.value and len(m.payload) >= 14 and m.payload[6] == 0xA5]
        self.pending[(src, dst, int(pkt.hdr.seq))] = (conn.session_key_bytes, pkt.hdr.pkt_type.value, idents)

    def tap(self, wid, t, src, dst, data, fate):
        w = self.w
        if len(data) < R.HDR:
            return
        h = R.dec_header(data)
        e = self.pending.pop((src, dst, h["seq"]), None)
        if e is None:
            return
        key, typ, idents = e
        for ident in idents:
            if ident in data:
                w.violation("application_bytes_in_clear_on_the_wire", {"ident": ident.hex(), "type": typ, "had_key": bool(key)},
                            key="type=%d:%s" % (typ, "keyed" if key else "before-key"))
                break
        if not key:
            # before key agreement the only thing an endpoint may put on the wire is its hello
            if typ != R.T_CLIENT_HELLO or h["count"] != 1:
                w.violation("datagram_other_than_hello_emitted_before_key_agreement", {"type": typ, "count": h["count"], "len": len(data)},
                            key="type=%d" % typ)
            return
        if typ == R.T_SERVER_HELLO:
            return                  # the one signed, unencrypted exception
        self.checked += 1
        nonce = bytes(data[:12])
        s = self.nonces[key]
        if nonce in s:
            w.violation("nonce_reused_within_session", {"nonce": nonce.hex(), "seq": h["seq"], "ctime": h["ctime"], "t": t,
                                                        "to_client": h["to_client"], "datagrams_under_key": self.per_key[key]},
                        key="to_client" if h["to_client"] else "to_server")
        s.add(nonce)
        self.per_key[key] += 1
        body = R.open_gcm(key, data)
        if body is None:
            crc = R.open_crc(data)
            w.violation("datagram_after_key_agreement_is_not_ciphertext_under_session_key",
                        {"type": typ, "len": len(data), "crc_valid_plaintext": crc is not None},
                        key="type=%d:%s" % (typ, "clear" if crc is not None else "undecryptable"))
        elif len(data) != R.HDR + len(body) + R.TAG:
            w.violation("sealed_datagram_has_unauthenticated_trailing_bytes", {"len": len(data)}, key="")
        # the whole 20-byte header is authenticated: altering any header byte must break the seal (sampled)
        if body is not None and self.checked % 97 == 0:
            for pos in range(R.HDR):
                m = bytearray(data)
                m[pos] ^= 0x01
                if pos in (13, 14):         # the length field: keep the slice the same, only the AAD changes
                    ok = self._open_fixed(key, bytes(m), len(body))
                else:
                    ok = R.open_gcm(key, bytes(m)) is not None
                self.tamper_checked += 1
                if ok:
                    w.violation("header_byte_not_authenticated", {"pos": pos}, key="pos=%d" % pos)

    @staticmethod
    def _open_fixed(key, datagram, body_len):
        from cryptography.hazmat.primitives.ciphers.aead import AESGCM
        from cryptography.exceptions import InvalidTag
        try:
            AESGCM(key).decrypt(datagram[:12], datagram[R.HDR:R.HDR + body_len + R.TAG], datagram[:R.HDR])
            return True
        except InvalidTag:
            return False


class C03(UdpCheck):
    pid = "C03"
    budget = {"quick": 80, "thorough": 900}
    ncases = {"quick": 200, "thorough": 6000}
    per_run_wall_s = 900
    chunk = 1
    shrink_s = 20
    max_reports = 1
    rule = ("case = one or two links with mixes of sizes / retry modes / idle periods, application update rates from 5 Hz to "
            "2 kHz (attacking the 60/s send cap), forward-path loss up to 99 % (emission, not delivery, is what matters), "
            "client restarts (new session key), per-node clock offsets, skew and forward clock steps; wrap runs emit > 65535 "
            "datagrams per direction under one key (quick: 1 wrap, thorough: 3).  wire tap: 12-byte nonces pairwise distinct "
            "per session key, every post-key datagram except SERVER_HELLO opens under the key with the reference AES-GCM "
            "(nonce = bytes 0-11, AAD = whole header), sampled single-byte header tampering breaks the seal, no application "
            "marker in clear.  non-trivial = more than 200 sealed datagrams were checked in the run; distinct = digest")

    def gen(self, rng, tier, i):
        wraps = (i < 2) if tier == "quick" else (i % 300 < 2)
        capattack = (i == 2) if tier == "quick" else (i % 300 == 2)
        if capattack:
            # the nonce only has 16 bits of sequence number per clock second: an application that calls update()
            # ~100 000 times a second with something queued every time must still be held to the send cap, with a
            # silent peer (constant ack field) so that a wrap inside one second would repeat a nonce
            case = gen_traffic(rng, i, tier, nclients=1, n_msgs=3, long_latency=False, entry="bare", settle=0.5, fault=False)
            cfg = case["cfg"]
            cfg["clients"][0]["dt"] = 1.1e-5
            cfg["clients"][0]["offset"] = 1.7e9 + rng.randrange(10 ** 5) + 0.93        # the burst starts right after a second boundary
            cfg["clients"][0]["rate"] = 1.0
            # (a tiny message timeout keeps the client's table of unacknowledged datagrams - scanned on every
            # update - small even if the cap is broken and it emits one datagram per update)
            cfg["clients"][0]["msg_timeout"] = 0.01
            cfg["server"]["interval"] = 1 / 10
            cfg["server"]["keep_alive"] = 2.0
            cfg["latency"], cfg["jitter"] = 0.001, 0.0
            cfg["duration"] = 1.95
            cfg["max_events"] = 30_000_000
            cfg["phases"] = []
            cfg["stream"] = {"period": 1.1e-5, "len": 0, "retry": 0, "start": 0.6, "stop": 1.9, "client_only": True}
            case["plan"] = [{"op": "connect", "c": 0, "t": 0.0}]
            case["capattack"] = True
            return case
        if wraps:
            nwrap = 1 if tier == "quick" else 3
            case = gen_traffic(rng, i, tier, nclients=1, n_msgs=rng.choice([10, 40]), long_latency=False, entry="bare", settle=3.0)
            cfg = case["cfg"]
            cfg["clients"][0]["dt"] = 1 / 59
            cfg["server"]["interval"] = 1 / 59
            dur = (nwrap + 0.15) * 65700 / 58.9        # well past the wrap: lap 2 meets the steady state of lap 1
            cfg["duration"] = dur
            cfg["stub_sleep"] = True
            cfg["max_events"] = 100_000_000
            cfg["phases"] = [{"t0": 1.0, "t1": dur, "loss": rng.choice([0.0, 0.3, 0.9]), "dst": "S"},
                             {"t0": 1.0, "t1": dur, "dup": 0.01}]
            cfg["stream"] = {"period": 1 / 70, "len": rng.choice([0, 9, 30]), "retry": 0}
            if i % 2 == 1:
                # lock-step flavour: the server only ever answers (echo), nothing is lost, so both sequence counters
                # advance together and the (seq, ack) pairs of lap 2 equal those of lap 1 - only the clock field
                # of the nonce tells the laps apart
                cfg["phases"] = []
                cfg["server"]["echo"] = 0
                cfg["server"]["keep_alive"] = 2.0
                cfg["clients"][0]["rate"] = 1.0
                cfg["server"]["rate"] = 1.0
                cfg["latency"], cfg["jitter"] = 0.004, 0.0
                cfg["stream"] = {"period": 1 / 59, "len": 9, "retry": 0, "client_only": True}
            case["plan"] = [op for op in case["plan"] if op["op"] == "connect"]
            for j in range(6):
                case["plan"].append({"op": "clockstep", "c": 0, "t": round(rng.random() * dur, 2), "d": rng.choice([0.01, 0.05])})
            case["wrap"] = True
            return case
        case = gen_traffic(rng, i, tier, nclients=rng.choice([1, 1, 2]), cb_p=0.1, long_latency=False, heavy=True)
        cfg, plan = case["cfg"], case["plan"]
        r = rng.random()
        fast = r < 0.3
        if fast:             # very fast application loop against the send-rate cap
            for cl in cfg["clients"]:
                cl["dt"] = rng.choice([5e-4, 1e-3, 2e-3])
            cfg["server"]["interval"] = rng.choice([1 / 500, 1 / 240, 1 / 60])
            cfg["duration"] = min(cfg["duration"], 5.0)
            cfg["max_events"] = 5_000_000
            case["plan"] = plan = [op for op in plan if op["t"] < 4.5]
        elif r < 0.4:        # very slow application
            for cl in cfg["clients"]:
                cl["dt"] = 1 / 5
            cfg["server"]["interval"] = 1 / 10
        if rng.random() < 0.4:
            cfg["phases"].append({"t0": 1.0, "t1": cfg["duration"], "dst": "S", "loss": rng.choice([0.5, 0.9, 0.99])})
        n = len(cfg["clients"])
        if rng.random() < 0.4:
            # the application calls send() right after connect(), while the handshake is still in flight
            cfg["latency"] = max(cfg["latency"], rng.choice([0.02, 0.05]))
            for op in [o for o in plan if o["op"] == "connect"]:
                for j in range(rng.choice([1, 3])):
                    plan.append({"op": "send", "c": op["c"], "t": round(op["t"] + 0.002 + j * 0.02, 4), "len": rng.choice([8, 60, 2000]),
                                 "retry": rng.choice([0, 1, -1]), "cb": False, "api": "send"})
        if rng.random() < 0.3:
            # the application gives up while the handshake is still in flight: disconnect() right after connect() (no key
            # yet - whatever the client emits now must not be anything but its hello), then a fresh attempt
            cfg["latency"] = max(cfg["latency"], rng.choice([0.02, 0.05]))
            c = rng.randrange(n)
            op = next(o for o in plan if o["op"] == "connect" and o["c"] == c)
            plan.append({"op": "disconnect", "c": c, "t": round(op["t"] + rng.choice([0.001, 0.01, 0.03]), 4)})
            plan.append({"op": "connect", "c": c, "t": round(op["t"] + 0.6, 4), "reuse": rng.random() < 0.5})
        if rng.random() < 0.5:
            # an orderly end of a session with a backlog: reliable messages still unacknowledged when the client says
            # goodbye / the server kicks it - the goodbye datagram may carry them along
            c = rng.randrange(n)
            t = round(cfg["duration"] - 2.5, 3)
            who = rng.choice(["send", "ssend"])
            for j in range(rng.choice([3, 10])):
                plan.append({"op": who, "c": c, "t": round(t - 0.3 + j * 0.02, 4), "len": rng.choice([30, 200, 900]), "retry": 1,
                             "cb": False, "api": "send", "kind": 0})
            plan.append({"op": rng.choice(["disconnect", "sdisconnect"]), "c": c, "t": t})
        for j in range(rng.choice([0, 1, 3])):
            plan.append({"op": "clockstep", "c": rng.randrange(n), "t": round(rng.random() * cfg["duration"], 3),
                         "d": rng.choice([0.001, 0.02, 0.05])})
        if not fast and rng.random() < 0.4:      # restart from the same address: a new session, a new key
            c = rng.randrange(n)
            t = 1.5 + rng.random() * 3
            plan.append({"op": "crash", "c": c, "t": round(t, 3)})
            plan.append({"op": "connect", "c": c, "t": round(t + 5.5 + rng.random(), 3)})
            cfg["duration"] = max(cfg["duration"], t + 12)
            for j in range(8):
                plan.append({"op": "send", "c": c, "t": round(t + 7.5 + j * 0.1, 3), "len": rng.choice([8, 100, 3000]),
                             "retry": rng.choice([0, 1, -1]), "cb": False, "api": "send"})
        return case

    def monitors(self, case):
        self.mon = NonceMonitor()
        return [self.mon]

    def prepare(self, w, case):
        w.after_build.append(lambda w_: install_stream(w_, case))

    def nontrivial(self, w, case):
        return self.mon.checked > 200

    def judge(self, w, case):
        mon = self.mon
        w.probes["sealed_datagrams_checked"] += mon.checked
        w.probes["header_tamper_trials"] += mon.tamper_checked
        w.probes["session_keys_seen"] += len(mon.nonces)
        w.maxima["datagrams_under_one_key"] = max(mon.per_key.values()) if mon.per_key else 0
        if case.get("wrap"):
            for k in (("c0", "S"), ("S", "c0")):
                w.probes["seq_wraps_crossed"] += w.net.ordinals.get(k, 0) // 65535
        return []

    def sample(self, w, case):
        s = super().sample(w, case)
        s["sealed_checked"] = self.mon.checked
        s["keys"] = len(self.mon.nonces)
        return s


CHECK = C03()
