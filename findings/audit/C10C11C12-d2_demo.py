"""
C11 - with a small MTU the server answers an unauthenticated CLIENT_HELLO with
more bytes than it received (UDP amplification towards a spoofed address).

The anti-amplification measure of the handshake is the padding of the
CLIENT_HELLO: HandshakeClientHelloMessage pads the hello to
Packet.MAX_PAYLOAD_SIZE - 26 bytes, i.e. the required size of a hello *scales
with the configured MTU*, while the SERVER_HELLO (root public key, ephemeral
public key, salt, token, ECDSA signature) has a fixed size of 327..329 bytes.
For every MTU in 369..390 (Packet.setMTU is the documented way to lower the
MTU "if the network is dropping packets") a valid hello datagram is
MTU-62 = 307..328 bytes long, the SERVER_HELLO still fits into one packet, and
the reply to an address that has not completed the handshake is larger than
the datagram that triggered it.

The datagram is pushed through the real UdpServerThread (mock socket).

run: PYTHONPATH=/tmp/aud/E /venv/bin/python d2_demo.py
"""
import sys
import time
import logging
from threading import Lock

from mpgameserver.context import ServerContext
from mpgameserver.handler import EventHandler
from mpgameserver.server import UdpServerThread
from mpgameserver.connection import ClientServerConnection, PacketHeader, Packet

logging.disable(logging.CRITICAL)

class MockSocket(object):
    def __init__(self):
        self.lk = Lock()
        self.sent = []
    def sendto(self, datagram, addr):
        with self.lk:
            self.sent.append((datagram, addr))

def exchange(mtu, addr):
    """ send one valid CLIENT_HELLO from addr, return (bytes in, bytes out) """
    Packet.setMTU(mtu)

    ctxt = ServerContext(EventHandler())
    sock = MockSocket()
    thread = UdpServerThread(sock, ctxt)
    thread.start()

    try:
        # the attacker only needs the public protocol to build a hello
        conn = ClientServerConnection(("server", 1))
        conn._sendClientHello()
        hello = conn._encode_packet(conn._build_packet())

        # datagram entry point (what TwistedServer.datagramReceived does)
        assert addr[0] not in ctxt.blocklist
        thread.append(addr, PacketHeader.from_bytes(True, hello), hello)

        # wait for the server to answer, or to give up on the handshake
        t0 = time.time()
        while time.time() - t0 < 3.0:
            with sock.lk:
                if sock.sent:
                    break
            if time.time() - t0 > .25 and not ctxt.temp_connections:
                break
            time.sleep(.005)
        time.sleep(.05)
        with sock.lk:
            sent = [d for d, a in sock.sent if a == addr]
        assert not ctxt.connections  # the handshake was never completed
        return len(hello), sum(len(d) for d in sent)
    finally:
        ctxt._active = False
        thread._wake()
        thread.join()

failures = []
try:
    for mtu in (1500, 1200, 576, 400, 392, 390, 385, 380, 375, 370, 368):
        addr = ("198.51.100.7", 1000 + mtu)
        received, sent = exchange(mtu, addr)
        flag = ""
        if sent > received:
            flag = "   <-- AMPLIFIED"
            failures.append((mtu, received, sent))
        print("MTU %4d: server received %4d bytes from %s:%d and sent %4d bytes back%s" % (
            mtu, received, addr[0], addr[1], sent, flag))
finally:
    Packet.setMTU(1500)

assert not failures, \
    "server sent more bytes than it received to an address that did not complete the handshake: %s" % failures
print("ok")
