"""Binding of simkit to nsetzer/mpgameserver (imports the tree under VERIF_REPO)."""
import os
import sys

REPO = os.environ.get("VERIF_REPO", "/repo")
if REPO not in sys.path[:1]:
    sys.path.insert(0, REPO)
sys.dont_write_bytecode = True
