#!/venv/bin/python
"""
C18 - the Close frame the library builds (WebSocketFrame.Close() with its
defaults, which is also what WebSocketTemporaryHandler.close() puts on the wire
to finish the close handshake) carries status code 200.

RFC 6455 5.5.1: if a Close frame has a body, its first two bytes MUST be a status
code "with value /code/ defined in Section 7.4".  7.4.2: "0-999  Status codes in
the range 0-999 are not used."  (1004/1005/1006/1015 are reserved and MUST NOT be
sent either.)  A conforming peer treats such a close frame as a protocol error
(browsers report the connection as failed instead of cleanly closed).

The framing itself (header, length, masking) is correct and round-trips; what is
wrong is the RFC-prescribed encoding of the Close body.

exit status 0: every Close frame built / sent by the library carries a status code
               RFC 6455 allows on the wire
exit status 1: otherwise
"""
import sys, os, struct
sys.path.insert(0, os.path.join(os.path.dirname(os.path.abspath(__file__)), ".."))

from mpgameserver.http_server import WebSocketFrame, WebSocketOpCode, \
    WebSocketTemporaryHandler, WebSocketTemporaryRingBuffer, \
    readFrameFactory, writeFrameFactory

def allowed_on_wire(code):
    # RFC 6455 7.4.1 / 7.4.2
    if code < 1000 or code > 4999:
        return False
    if code in (1004, 1005, 1006, 1015):
        return False
    return True

class Sock(object):
    def __init__(self, data=b""):
        self.buf = data
    def sendall(self, data):
        self.buf += bytes(data)
    def recv(self, n):
        data, self.buf = self.buf[:n], self.buf[n:]
        return data

class FakeRequest(object):
    """stands in for the twisted request the ring buffer writes to"""
    def __init__(self):
        self.chunked = 1
        self.written = b""
    def write(self, data):
        self.written += bytes(data)

class Endpoint(object):
    def __init__(self):
        self.events = []
    def callback(self, handler, opcode, payload):
        self.events.append((opcode, payload))

def masked(fin, opcode, payload, key=b"\x11\x22\x33\x44"):
    assert len(payload) <= 125
    hdr = struct.pack("!BB", (fin << 7) | opcode, 0x80 | len(payload)) + key
    return hdr + bytes(b ^ key[i % 4] for i, b in enumerate(payload))

failures = []

# 1. the frame built by the library, as is
frame = WebSocketFrame.Close()
sock = Sock()
writeFrameFactory(sock)(frame)
wire = sock.buf
parsed = readFrameFactory(Sock(wire))()
assert parsed.flags.opcode == WebSocketOpCode.Close and parsed.flags.fin == 1
code, = struct.unpack("!H", bytes(parsed.payload[:2]))
print("WebSocketFrame.Close() on the wire: %r -> status code %d" % (wire, code))
if not allowed_on_wire(code):
    failures.append("WebSocketFrame.Close() carries status code %d (RFC 6455 7.4.2: 0-999 are not used)" % code)

# 2. the close handshake: client sends Close(1000), the handler must answer with a Close frame
req = FakeRequest()
endpt = Endpoint()
handler = WebSocketTemporaryHandler(("127.0.0.1", 5000), {}, {}, WebSocketTemporaryRingBuffer(req), endpt)
handler(masked(1, 0x8, struct.pack("!H", 1000)))
assert [op for op, _ in endpt.events] == [WebSocketOpCode.Close], endpt.events
reply = readFrameFactory(Sock(req.written))()
assert reply.flags.opcode == WebSocketOpCode.Close
code, = struct.unpack("!H", bytes(reply.payload[:2]))
print("reply of the handler to a client Close(1000): %r -> status code %d" % (req.written, code))
if not allowed_on_wire(code):
    failures.append("close handshake: handler answered Close(1000) with status code %d" % code)

# 3. server initiated close
req = FakeRequest()
handler = WebSocketTemporaryHandler(("127.0.0.1", 5001), {}, {}, WebSocketTemporaryRingBuffer(req), Endpoint())
handler.close()
reply = readFrameFactory(Sock(req.written))()
code, = struct.unpack("!H", bytes(reply.payload[:2]))
print("handler.close(): %r -> status code %d" % (req.written, code))
if not allowed_on_wire(code):
    failures.append("handler.close() sent status code %d" % code)

if failures:
    print("FAIL")
    for f in failures:
        print("  " + f)
    sys.exit(1)
print("OK")
sys.exit(0)
